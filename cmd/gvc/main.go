package main

import (
	"fmt"
	"golang.org/x/tools/go/packages"
	"golang.org/x/tools/go/ssa/ssautil"
	"golang.org/x/tools/go/ssa"
)

func main() {
	_ = packages.Load
	_ = ssautil.Packages
	_ = ssa.InstantiateGenerics
	fmt.Println("ok")
}
