package main

import (
	"flag"
	"fmt"
	"os"
	"sort"
	"strings"

	"gvc/internal/gvc"
)

func main() {
	if len(os.Args) < 2 {
		fmt.Println("usage: gvc verify|check|replay ...")
		os.Exit(2)
	}
	switch os.Args[1] {
	case "verify":
		cmdVerify(os.Args[2:])
	case "check":
		os.Exit(gvc.CmdCheck(os.Args[2:]))
	case "replay":
		os.Exit(gvc.CmdReplay(os.Args[2:]))
	case "selftest":
		os.Exit(gvc.CmdSelftest(os.Args[2:]))
	case "mutsweep":
		os.Exit(gvc.CmdMutSweep(os.Args[2:]))
	case "npsweep":
		os.Exit(gvc.CmdNpSweep(os.Args[2:]))
	default:
		fmt.Println("unknown command", os.Args[1])
		os.Exit(2)
	}
}

// verify: developer tool — run one function and print every obligation.
func cmdVerify(args []string) {
	fs := flag.NewFlagSet("verify", flag.ExitOnError)
	pkgs := fs.String("pkgs", "", "comma separated package patterns (relative to /repo)")
	fn := fs.String("func", "", "canonical function name(s), comma separated")
	extra := fs.String("contracts", "", "extra contract files")
	timeout := fs.Int("t", 10000, "solver timeout ms")
	list := fs.Bool("list", false, "list functions")
	verbose := fs.Bool("v", false, "verbose")
	inst := fs.String("inst", "", "generic types to instantiate, ';' separated: pkg/path.Type[int64]")
	fs.Parse(args)
	if *inst != "" {
		gvc.ExtraInstances = strings.Split(*inst, ";")
	}
	P, err := gvc.LoadProgram(strings.Split(*pkgs, ","))
	if err != nil {
		fmt.Println("load error:", err)
		os.Exit(2)
	}
	if err := P.LoadTrusted(); err != nil {
		fmt.Println("trusted load error:", err)
		os.Exit(2)
	}
	if *extra != "" {
		if err := P.LoadExtraContracts(strings.Split(*extra, ",")...); err != nil {
			fmt.Println(err)
			os.Exit(2)
		}
	}
	if *list {
		var names []string
		for n := range P.Funcs {
			names = append(names, n)
		}
		sort.Strings(names)
		for _, n := range names {
			if strings.Contains(n, *fn) {
				fmt.Println(n)
			}
		}
		return
	}
	for _, name := range strings.Split(*fn, ",") {
		rep := gvc.RunFunction(P, name, gvc.DefaultConfig(), gvc.SolveOpts{OutDir: "/verif/out/dev", TimeoutMs: *timeout})
		fmt.Printf("== %s: paths=%d truncated=%v explore=%dms solve=%dms\n", name, rep.Paths, rep.Truncated, rep.ExploreMs, rep.SolveMs)
		for _, u := range rep.Unsupported {
			fmt.Println("  UNSUPPORTED:", u)
		}
		for _, r := range rep.Results {
			fmt.Printf("  %-10s %-70s paths=%d %s %dms %s\n", r.Status, r.Name, r.Paths, r.Backend, r.Millis, r.Pos)
			if r.Status != "discharged" && *verbose {
				for _, t := range r.Trace {
					fmt.Println("      |", t)
				}
				fmt.Println("      file:", r.File)
				if r.Model != "" {
					fmt.Println(indent(r.Model, "      "))
				}
			}
		}
		if *verbose {
			for _, m := range []map[string]int{rep.Abstracted, rep.Trusted, rep.Inlined, rep.ByContract} {
				var ks []string
				for k := range m {
					ks = append(ks, k)
				}
				sort.Strings(ks)
				for _, k := range ks {
					fmt.Printf("    %s x%d\n", k, m[k])
				}
				fmt.Println("    --")
			}
		}
	}
}

func indent(s, p string) string {
	lines := strings.Split(s, "\n")
	if len(lines) > 60 {
		lines = lines[:60]
	}
	return p + strings.Join(lines, "\n"+p)
}
