package gvc

// Evaluation of contract expressions to SMT terms.

import (
	"sort"
	"fmt"
	"go/types"
	"os"
	"regexp"
	"strconv"
	"strings"

	"golang.org/x/tools/go/ssa"
)

type scope struct {
	vars        map[string]Val
	extra       map[string]Val
	oldHeap     map[string]Term
	oldWorlds   []WorldState
	inOld       bool
	inQuant     bool            // evaluating under a quantifier (bound variables in scope)
	headHeap    map[string]Term // back_edge_ensures: heap at the head of the iteration (head(e))
	headWorlds  []WorldState
	headCounts  map[string]int
	headSyms    map[string]Term
	inHead      bool // evaluating inside head(...)
	preferLocal bool // local(x): an address-taken parameter is read from its cell (current value), not its entry value
	world       int  // world index "W" refers to
	nq          int
	noOuter     bool           // do not look into frames above (internal to lookupIdent)
	guardCallee string         // evaluating a guard on a call of this callee (lastarg of it = the previous call)
	freeCells   map[string]Val // captured variables of a closure whose contract is applied at a call site (cell addresses)
	pkg         *ssa.Package // package whose constants / variables are in scope (callee contracts)
}

func newScope() *scope { return &scope{vars: map[string]Val{}, extra: map[string]Val{}} }

func (s *scope) addVars(m map[string]Val) {
	for k, v := range m {
		s.vars[k] = v
	}
}

func (s *scope) child() *scope {
	n := &scope{vars: map[string]Val{}, extra: s.extra, oldHeap: s.oldHeap, oldWorlds: s.oldWorlds, inOld: s.inOld, inQuant: s.inQuant, world: s.world, nq: s.nq, pkg: s.pkg, preferLocal: s.preferLocal, headHeap: s.headHeap, headWorlds: s.headWorlds, headCounts: s.headCounts, headSyms: s.headSyms, inHead: s.inHead, freeCells: s.freeCells, guardCallee: s.guardCallee}
	for k, v := range s.vars {
		n.vars[k] = v
	}
	return n
}

// scopeFor builds the scope of a frame: old state = frame entry.
func (x *Exec) scopeFor(st *State, fr *Frame) *scope {
	sc := newScope()
	if fr != nil {
		sc.oldHeap = fr.entryHeap
		sc.oldWorlds = fr.entryWorlds
		if sc.oldWorlds == nil && len(st.frames) > 0 {
			sc.oldWorlds = st.frames[0].entryWorlds
		}
	}
	return sc
}

func (x *Exec) bindingVal(st *State, b nameBinding) (Val, bool) {
	if !b.isAddr {
		return b.v, true
	}
	l := x.lvalOf(b.v)
	t, ct, err := x.loadLV(st.heap, l)
	if err != nil {
		return Val{}, false
	}
	res := Val{T: t, Typ: ct}
	if st.meta != nil {
		if m, ok := st.meta[lvKey(l)]; ok {
			res.Clo, res.World, res.Dyn, res.Fn, res.LV, res.Commit = m.Clo, m.World, m.Dyn, m.Fn, m.LV, m.Commit
		}
	}
	return res, true
}

func (x *Exec) heapFor(st *State, sc *scope) map[string]Term {
	if sc.inOld && sc.oldHeap != nil {
		return sc.oldHeap
	}
	return st.heap
}

func (x *Exec) worldFor(st *State, sc *scope, idx int) WorldState {
	if sc.inOld && sc.oldWorlds != nil && idx < len(sc.oldWorlds) {
		return sc.oldWorlds[idx]
	}
	if idx < len(st.worlds) {
		return st.worlds[idx]
	}
	return st.worlds[0]
}

func (x *Exec) evalBool(st *State, fr *Frame, e Expr, sc *scope) (Term, error) {
	v, err := x.evalSpec(st, fr, e, sc)
	if err != nil {
		return Term{}, err
	}
	if v.T.Sort != SBool {
		return Term{}, fmt.Errorf("expression %s is %s, not Bool", e.exprString(), v.T.Sort)
	}
	return v.T, nil
}

func (x *Exec) lookupIdent(st *State, fr *Frame, name string, sc *scope) (Val, error) {
	if _, ok := sc.vars[name]; !ok && fr != nil {
		// a local that was renamed since the ledger was recorded is followed by its definition (rename.go)
		if n2 := renamedLocal(fr.fn, name); n2 != "" {
			x.Abstracted["renamed local followed by its definition: "+name+" -> "+n2]++
			name = n2
		}
		if strings.HasPrefix(name, "head_") {
			if n2 := renamedLocal(fr.fn, name[5:]); n2 != "" {
				if _, ok := sc.vars["head_"+n2]; ok {
					x.Abstracted["renamed local followed by its definition: "+name+" -> head_"+n2]++
					name = "head_" + n2
				}
			}
		}
	}
	if v, ok := sc.vars[name]; ok {
		if os.Getenv("GVC_TRACE_IDENT") == name {
			fmt.Fprintf(os.Stderr, "ident %s from sc.vars: %s\n", name, v.T.S)
		}
		return v, nil
	}
	if c, ok := sc.freeCells[name]; ok {
		return x.bindingValDeref(st, sc, c)
	}
	if fr != nil {
		if sc.inOld {
			// old(x) of a captured variable: what its cell held on entry (its name may since have been
			// rebound to a newer value of this call)
			for i, fv := range fr.fn.FreeVars {
				if fv.Name() == name && i < len(fr.freevars) {
					if v, err := x.bindingValDeref(st, sc, fr.freevars[i]); err == nil {
						return v, nil
					}
				}
			}
		}
		if sc.preferLocal {
			// the variable's current value: its cell when its address is taken, its latest
			// definition when it was reassigned
			if b, ok := fr.names[name]; ok {
				if v, ok := x.bindingVal(st, b); ok {
					return v, nil
				}
			}
		}
		for i, p := range fr.fn.Params {
			if p.Name() == name && i < len(fr.params) {
				return fr.params[i], nil
			}
		}
		if b, ok := fr.names[name]; ok {
			if sc.inOld && b.isAddr {
				l := x.lvalOf(b.v)
				t, ct, err := x.loadLV(x.heapFor(st, sc), l)
				if err == nil {
					return Val{T: t, Typ: ct}, nil
				}
			}
			if v, ok := x.bindingVal(st, b); ok {
				if os.Getenv("GVC_TRACE_IDENT") == name {
					fmt.Fprintf(os.Stderr, "ident %s from names: %s (isAddr=%v) frame=%s block=%d pc=%d\n", name, v.T.S, b.isAddr, fr.fn.Name(), fr.block.Index, fr.pc)
				}
				return v, nil
			}
		}
		for i, fv := range fr.fn.FreeVars {
			if fv.Name() == name && i < len(fr.freevars) {
				return x.bindingValDeref(st, sc, fr.freevars[i])
			}
		}
	}
	if v, ok := sc.extra[name]; ok {
		return v, nil
	}
	if fr != nil {
		if v, ok := x.latestDefinition(fr, name); ok {
			return v, nil
		}
	}
	if v, ok := x.specConsts[name]; ok {
		return v, nil
	}
	if name == "blockheight" {
		x.D.DeclareFun("blockheight", nil, SInt)
		return Val{T: Term{"blockheight", SInt}, Typ: types.Typ[types.Int64]}, nil
	}
	// package-level constants / variables of the function's package
	pkg := sc.pkg
	if fr != nil && fr.fn.Pkg != nil {
		pkg = fr.fn.Pkg
	}
	if pkg != nil {
		if rc := recordedConst(pkg, name); rc != nil {
			x.Abstracted["renamed constant followed by its value: "+name+" -> "+rc.Name()]++
			return x.constVal(rc.Value), nil
		}
		if m := pkg.Members[name]; m != nil {
			if nc, ok := m.(*ssa.NamedConst); ok {
				return x.constVal(nc.Value), nil
			}
			if g, ok := m.(*ssa.Global); ok && st != nil {
				gv := x.val(st, fr, g)
				t, ct, err := x.loadLV(x.heapFor(st, sc), x.lvalOf(gv))
				if err == nil {
					return Val{T: t, Typ: ct}, nil
				}
			}
		}
	}
	if fr != nil && st != nil && !sc.noOuter && x.inNewHelperChain(st, fr) {
		// a clause of the function under contract evaluated inside a helper extracted from it: the
		// name is a local that moved along (found by its definition), or a local of a frame above
		if n2 := movedLocal(fr.fn, x.TopName, name); n2 != "" {
			x.Abstracted["local that moved into an extracted helper, followed by its definition: "+name+" -> "+n2]++
			return x.lookupIdent(st, fr, n2, sc)
		}
		if strings.HasPrefix(name, "head_") {
			// head_<local>: the loop variable moved along with its loop
			if n2 := movedLocal(fr.fn, x.TopName, name[5:]); n2 != "" {
				if v, ok := sc.vars["head_"+n2]; ok {
					x.Abstracted["local that moved into an extracted helper, followed by its definition: "+name+" -> head_"+n2]++
					return v, nil
				}
			}
		}
		for i := len(st.frames) - 1; i >= 0; i-- {
			if st.frames[i] == fr {
				for j := i - 1; j >= 0; j-- {
					nsc := *sc
					nsc.noOuter = true
					if v, err := x.lookupIdent(st, st.frames[j], name, &nsc); err == nil {
						return v, nil
					}
				}
				break
			}
		}
	}
	if fr != nil && st != nil && fr.fn.Parent() != nil && len(st.frames) > 0 && st.frames[0] == fr {
		// a parameter of the function that makes this closure (capture.go)
		if v, ok := st.meta["outerparam:"+name]; ok {
			x.Abstracted["parameter of the enclosing function named by a closure's clause: "+name]++
			return v, nil
		}
	}
	if fr != nil && st != nil && !sc.noOuter {
		if v, ok := x.helperLocal(st, fr, name); ok {
			return v, nil
		}
	}
	if fr != nil && st != nil {
		if v, ok := movedCallResult(st, fr.fn, name); ok {
			x.Abstracted["local of the recorded function that named a call result, read from the call: "+name]++
			return v, nil
		}
		if t := movedCallResultType(fr.fn, name); t != nil {
			// the call did not happen on this path: an arbitrary value, as for any unbound local
			key := "unboundlocal:" + name
			if v, ok := sc.extra[key]; ok {
				return v, nil
			}
			v := x.freshVal(st, "unbound."+name, t)
			sc.extra[key] = v
			return v, nil
		}
	}
	// ... or a recorded local of the function under contract that now lives in an extracted helper which
	// did not run on this path: an arbitrary value of its type there
	if fr != nil && st != nil && len(st.frames) > 0 && st.frames[0] == fr && os.Getenv("GVC_NO_RENAME") == "" {
		if _, was := loadBaseNames()[baseKey(fr.fn)][name]; was {
			if _, still := currentNames(fr.fn)[name]; !still {
				var found types.Type
				n := 0
				for _, hf := range x.newHelpersOfTop() {
					if t, _ := localType(hf, name); t != nil {
						found = t
						n++
					}
				}
				if n == 1 {
					key := "unboundlocal:" + name
					if v, ok := sc.extra[key]; ok {
						return v, nil
					}
					v := x.freshVal(st, "unbound."+name, found)
					sc.extra[key] = v
					return v, nil
				}
			}
		}
	}
	// A local that exists in the function but is not bound on this path (e.g. an early return before
	// its declaration): an arbitrary value of its type. Sound for obligations — an unconstrained value
	// can only make a goal harder to prove — and lets `err == nil ==> ...` clauses be stated once.
	if fr != nil && st != nil {
		if t, isAddr := localType(fr.fn, name); t != nil {
			key := "unboundlocal:" + name
			if v, ok := sc.extra[key]; ok {
				return v, nil
			}
			var v Val
			if isAddr {
				pv := x.freshVal(st, "unbound."+name, types.NewPointer(t))
				tt, ct, err := x.loadLV(x.heapFor(st, sc), x.lvalOf(pv))
				if err != nil {
					return Val{}, fmt.Errorf("unknown identifier %q", name)
				}
				v = Val{T: tt, Typ: ct}
				if _, isStruct := t.Underlying().(*types.Struct); isStruct {
					v = pv // struct locals are used through their address (cp.field)
				}
			} else {
				v = x.freshVal(st, "unbound."+name, t)
			}
			sc.extra[key] = v
			return v, nil
		}
	}
	return Val{}, fmt.Errorf("unknown identifier %q", name)
}

// localType finds the type of a source-level local by its name (from debug refs / allocs).
func localType(fn *ssa.Function, name string) (types.Type, bool) {
	for _, b := range fn.Blocks {
		for _, in := range b.Instrs {
			switch in := in.(type) {
			case *ssa.DebugRef:
				if debugName(in) == name {
					if in.IsAddr {
						if p, ok := in.X.Type().Underlying().(*types.Pointer); ok {
							return p.Elem(), true
						}
					}
					return in.X.Type(), false
				}
			case *ssa.Alloc:
				if in.Comment == name {
					return in.Type().Underlying().(*types.Pointer).Elem(), true
				}
			}
		}
	}
	return nil, false
}

func (x *Exec) bindingValDeref(st *State, sc *scope, v Val) (Val, error) {
	// free variables are addresses of captured variables
	l := x.lvalOf(v)
	t, ct, err := x.loadLV(x.heapFor(st, sc), l)
	if err != nil {
		return Val{}, err
	}
	return Val{T: t, Typ: ct}, nil
}

func (x *Exec) evalSpec(st *State, fr *Frame, e Expr, sc *scope) (Val, error) {
	switch e := e.(type) {
	case EInt:
		return Val{T: IntLitStr(e.V), Typ: types.Typ[types.UntypedInt]}, nil
	case EReal:
		return Val{T: Term{e.V, SReal}, Typ: types.Typ[types.Float64]}, nil
	case EStr:
		return Val{T: x.S.StrLit(e.V), Typ: types.Typ[types.String]}, nil
	case EBool:
		if e.V {
			return Val{T: TTrue}, nil
		}
		return Val{T: TFalse}, nil
	case ENil:
		return Val{T: TNull}, nil
	case EIdent:
		if e.Name == "W" {
			return Val{T: x.worldFor(st, sc, sc.world).Ver, World: sc.world + 1}, nil
		}
		return x.lookupIdent(st, fr, e.Name, sc)
	case EOld:
		c := sc.child()
		c.inOld = true
		return x.evalSpec(st, fr, e.X, c)
	case ELet:
		v, err := x.evalSpec(st, fr, e.Val, sc)
		if err != nil {
			return Val{}, err
		}
		c := sc.child()
		if st != nil && !sc.inQuant && v.T.Sort != "" && v.T.Sort != SUnit {
			// name the value once (keeps if-then-else terms out of quantifier triggers)
			v.T = x.define(st, "let."+e.Var, v.T)
		}
		c.vars[e.Var] = v
		return x.evalSpec(st, fr, e.Body, c)
	case EIte:
		cnd, err := x.evalBool(st, fr, e.C, sc)
		if err != nil {
			return Val{}, err
		}
		a, err := x.evalSpec(st, fr, e.A, sc)
		if err != nil {
			return Val{}, err
		}
		b, err := x.evalSpec(st, fr, e.B, sc)
		if err != nil {
			return Val{}, err
		}
		a, b = x.unifyNil(a, b)
		return Val{T: Ite(cnd, a.T, b.T), Typ: a.Typ}, nil
	case EQuant:
		// a chain of same-kind quantifiers becomes one quantifier with a multi-pattern made of the
		// array reads that mention the bound variables (keeps E-matching cheap and predictable)
		c := sc.child()
		c.inQuant = true
		var names, sorts []string
		var ranges []Term
		cur := Expr(e)
		for {
			q, ok := cur.(EQuant)
			if !ok || q.Forall != e.Forall {
				break
			}
			x.nquant++
			name := fmt.Sprintf("%s_q%d", q.Var, x.nquant)
			sort, typ := x.specSort(q.Sort)
			c.vars[q.Var] = Val{T: Term{name, sort}, Typ: typ}
			names = append(names, name)
			sorts = append(sorts, sort)
			if typ != nil && sort == SInt && q.Sort != "int" && q.Sort != "Int" {
				// a sized integer type: the bound variable ranges over that type's values only
				if r := rangeOf(typ); r != nil {
					ranges = append(ranges, And(App(SBool, "<=", IntLitStr(r.lo.String()), Term{name, SInt}), App(SBool, "<=", Term{name, SInt}, IntLitStr(r.hi.String()))))
				}
			}
			cur = q.Body
		}
		body, err := x.evalBool(st, fr, cur, c)
		if err != nil {
			return Val{}, err
		}
		if len(ranges) > 0 {
			if e.Forall {
				body = Implies(And(ranges...), body)
			} else {
				body = And(append(ranges, body)...)
			}
		}
		q := "exists"
		if e.Forall {
			q = "forall"
		}
		var binders []string
		for i := range names {
			binders = append(binders, fmt.Sprintf("(%s %s)", names[i], sorts[i]))
		}
		pat := ""
		if e.Forall {
			pat = quantPattern(body.S, names)
		}
		if pat != "" {
			return Val{T: Term{fmt.Sprintf("(%s (%s) (! %s :pattern (%s)))", q, strings.Join(binders, " "), body.S, pat), SBool}}, nil
		}
		return Val{T: Term{fmt.Sprintf("(%s (%s) %s)", q, strings.Join(binders, " "), body.S), SBool}}, nil
	case EUnary:
		v, err := x.evalSpec(st, fr, e.X, sc)
		if err != nil {
			return Val{}, err
		}
		if e.Op == "!" {
			return Val{T: Not(v.T)}, nil
		}
		return Val{T: App(v.T.Sort, "-", v.T), Typ: v.Typ}, nil
	case EBinary:
		return x.evalBinary(st, fr, e, sc)
	case ESel:
		return x.evalSel(st, fr, e, sc)
	case EIndex:
		xv, err := x.evalSpec(st, fr, e.X, sc)
		if err != nil {
			return Val{}, err
		}
		iv, err := x.evalSpec(st, fr, e.I, sc)
		if err != nil {
			return Val{}, err
		}
		return x.indexVal(st, sc, xv, iv)
	case ECall:
		return x.evalCall(st, fr, e, sc)
	}
	return Val{}, fmt.Errorf("unsupported spec expression %T", e)
}

func (x *Exec) specSort(s string) (string, types.Type) {
	switch s {
	case "int", "Int":
		return SInt, types.Typ[types.Int]
	case "bool":
		return SBool, types.Typ[types.Bool]
	case "string", "Str":
		return SStr, types.Typ[types.String]
	case "uint64", "uint32", "uint16", "uint8", "uint", "int64", "int32", "int16", "int8", "byte":
		for _, bt := range types.Typ {
			if bt.Name() == s && bt.Info()&types.IsInteger != 0 {
				return SInt, bt
			}
		}
	case "Bytes":
		return SBytes, nil
	case "Ref":
		return SRef, nil
	}
	return s, nil
}

func (x *Exec) unifyNil(a, b Val) (Val, Val) {
	if a.T.Sort == b.T.Sort {
		return a, b
	}
	if a.T.S == "null" {
		return Val{T: x.S.ZeroOfSort(b.T.Sort, b.Typ), Typ: b.Typ}, b
	}
	if b.T.S == "null" {
		return a, Val{T: x.S.ZeroOfSort(a.T.Sort, a.Typ), Typ: a.Typ}
	}
	return a, b
}

func (x *Exec) evalBinary(st *State, fr *Frame, e EBinary, sc *scope) (Val, error) {
	l, err := x.evalSpec(st, fr, e.L, sc)
	if err != nil {
		return Val{}, err
	}
	if e.Op == "==>" && constFalse(l.T) {
		// the antecedent is false on this path (typically a concrete call count): the consequent
		// need not even be well-formed here (lastret of a call that did not happen)
		return Val{T: TTrue}, nil
	}
	r, err := x.evalSpec(st, fr, e.R, sc)
	if err != nil {
		return Val{}, err
	}
	switch e.Op {
	case "&&":
		return Val{T: And(l.T, r.T)}, nil
	case "||":
		return Val{T: Or(l.T, r.T)}, nil
	case "==>":
		return Val{T: Implies(l.T, r.T)}, nil
	case "<==>":
		return Val{T: Eq(l.T, r.T)}, nil
	case "==", "!=":
		l, r = x.unifyNil(l, r)
		var t Term
		if l.T.Sort == SSlice && (r.T.S == "(mk-slice null 0 0 0)" || l.T.S == "(mk-slice null 0 0 0)") {
			o := l
			if l.T.S == "(mk-slice null 0 0 0)" {
				o = r
			}
			t = Eq(App(SRef, "s.base", o.T), TNull)
		} else if l.T.Sort != r.T.Sort {
			return Val{}, fmt.Errorf("comparison of %s and %s in %s", l.T.Sort, r.T.Sort, e.exprString())
		} else {
			t = Eq(l.T, r.T)
		}
		if e.Op == "!=" {
			t = Not(t)
		}
		return Val{T: t}, nil
	case "<", "<=", ">", ">=":
		if l.T.Sort == SMInt {
			l = Val{T: App(SInt, "mint.v", l.T)}
		}
		if r.T.Sort == SMInt {
			r = Val{T: App(SInt, "mint.v", r.T)}
		}
		if l.T.Sort != r.T.Sort {
			if l.T.Sort == SInt && r.T.Sort == SReal {
				l.T = App(SReal, "to_real", l.T)
			} else if l.T.Sort == SReal && r.T.Sort == SInt {
				r.T = App(SReal, "to_real", r.T)
			} else {
				return Val{}, fmt.Errorf("ordering of %s and %s in %s", l.T.Sort, r.T.Sort, e.exprString())
			}
		}
		return Val{T: App(SBool, e.Op, l.T, r.T)}, nil
	case "+", "-", "*":
		if e.Op == "+" && l.T.Sort == SStr && r.T.Sort == SStr {
			// string concatenation: the same symbol the executor uses for s + t
			x.D.DeclareFun("str.cat", []string{SStr, SStr}, SStr)
			return Val{T: App(SStr, "str.cat", l.T, r.T), Typ: types.Typ[types.String]}, nil
		}
		if l.T.Sort == SMInt {
			l = Val{T: App(SInt, "mint.v", l.T)}
		}
		if r.T.Sort == SMInt {
			r = Val{T: App(SInt, "mint.v", r.T)}
		}
		return Val{T: App(l.T.Sort, e.Op, l.T, r.T), Typ: nil}, nil
	case "/":
		if l.T.Sort == SReal {
			return Val{T: App(SReal, "/", l.T, r.T)}, nil
		}
		return Val{T: App(SInt, "div", l.T, r.T)}, nil
	case "%":
		return Val{T: App(SInt, "mod", l.T, r.T)}, nil
	}
	return Val{}, fmt.Errorf("unsupported operator %s", e.Op)
}

func (x *Exec) evalSel(st *State, fr *Frame, e ESel, sc *scope) (Val, error) {
	// W.ghost
	if id, ok := e.X.(EIdent); ok && id.Name == "W" {
		w := x.worldFor(st, sc, sc.world)
		if e.Name == "ver" {
			return Val{T: w.Ver}, nil
		}
		return Val{T: x.ghost(w, e.Name)}, nil
	}
	// pkg.Name: a constant or variable of a package imported by the function's package
	if id, ok := e.X.(EIdent); ok && fr != nil && fr.fn.Pkg != nil {
		if _, err := x.lookupIdent(st, fr, id.Name, sc.child()); err != nil {
			for _, imp := range fr.fn.Pkg.Pkg.Imports() {
				if imp.Name() != id.Name {
					continue
				}
				if sp := x.P.SSA.Package(imp); sp != nil && sp.Members[e.Name] != nil {
					c := sc.child()
					c.pkg = sp
					return x.lookupIdent(st, nil, e.Name, c)
				}
			}
		}
	}
	xv, err := x.evalSpec(st, fr, e.X, sc)
	if err != nil {
		return Val{}, err
	}
	if xv.World > 0 && xv.T.Sort == SWorld {
		w := x.worldFor(st, sc, xv.World-1)
		if e.Name == "ver" {
			return Val{T: w.Ver}, nil
		}
		return Val{T: x.ghost(w, e.Name)}, nil
	}
	return x.fieldOf(st, sc, xv, e.Name)
}

// fieldOf selects a (possibly promoted) field by name from a struct value or pointer to struct.
func (x *Exec) fieldOf(st *State, sc *scope, xv Val, name string) (Val, error) {
	if xv.Typ == nil {
		// datatype selector by name on a spec-level term (e.g. mint.v)
		return Val{}, fmt.Errorf("field %s of untyped term %s", name, xv.T.S)
	}
	t := xv.Typ
	if xv.T.Sort == SIface && xv.Dyn != nil {
		return x.fieldOf(st, sc, *xv.Dyn, name)
	}
	if p, ok := t.Underlying().(*types.Pointer); ok {
		// auto-deref through the heap
		si := x.S.StructInfo(p.Elem())
		if si == nil {
			return Val{}, fmt.Errorf("field %s of non-struct pointer %s", name, t)
		}
		idx := fieldIndex(si.typ, name)
		if idx < 0 {
			// promoted through embedded fields
			for i := 0; i < si.typ.NumFields(); i++ {
				if si.typ.Field(i).Embedded() {
					l := x.lvalOf(xv).extend(lstep{field: i, ct: p.Elem()})
					tt, ct, err := x.loadLV(x.heapFor(st, sc), l)
					if err == nil {
						if v, err := x.fieldOf(st, sc, Val{T: tt, Typ: ct}, name); err == nil {
							return v, nil
						}
					}
				}
			}
			return Val{}, fmt.Errorf("no field %s in %s", name, p.Elem())
		}
		l := x.lvalOf(xv).extend(lstep{field: idx, ct: p.Elem()})
		tt, ct, err := x.loadLV(x.heapFor(st, sc), l)
		if err != nil {
			return Val{}, err
		}
		return Val{T: tt, Typ: ct}, nil
	}
	si := x.S.StructInfo(t)
	if si == nil {
		return Val{}, fmt.Errorf("field %s of non-struct %s", name, t)
	}
	idx := fieldIndex(si.typ, name)
	if idx < 0 {
		for i := 0; i < si.typ.NumFields(); i++ {
			if si.typ.Field(i).Embedded() {
				inner := Val{T: App(si.fields[i], x.S.fieldSel(si.sort, si.typ, i), xv.T), Typ: si.typ.Field(i).Type()}
				if v, err := x.fieldOf(st, sc, inner, name); err == nil {
					return v, nil
				}
			}
		}
		return Val{}, fmt.Errorf("no field %s in %s", name, t)
	}
	return Val{T: App(si.fields[idx], x.S.fieldSel(si.sort, si.typ, idx), xv.T), Typ: si.typ.Field(idx).Type()}, nil
}

func fieldIndex(s *types.Struct, name string) int {
	for i := 0; i < s.NumFields(); i++ {
		if s.Field(i).Name() == name {
			return i
		}
	}
	return recordedFieldIndex(s, name) // a field renamed since the ledger was recorded (rename.go)
}

func (x *Exec) indexVal(st *State, sc *scope, xv, iv Val) (Val, error) {
	switch {
	case xv.T.Sort == SSlice:
		var et types.Type
		sort := SInt
		if xv.Typ != nil {
			if sl, ok := xv.Typ.Underlying().(*types.Slice); ok {
				et = sl.Elem()
				sort = x.S.SortOf(et)
			}
		}
		n, s := elemArrName(sort)
		arr := heapArrIn(x, x.heapFor(st, sc), n, s)
		base, idx := App(SRef, "s.base", xv.T), App(SInt, "+", App(SInt, "s.off", xv.T), iv.T)
		res := Val{T: Select(Select(arr, base), idx), Typ: et}
		if st != nil && st.meta != nil && !sc.inOld {
			// what is statically known about this cell (dynamic type of an interface element)
			key := lvKey(&LVal{Kind: "elems", Root: base, Path: []lstep{{isIdx: true, idx: idx}}})
			if mv, ok := st.meta[key]; ok {
				res.Dyn, res.Clo, res.Fn = mv.Dyn, mv.Clo, mv.Fn
			}
		}
		return res, nil
	case strings.HasPrefix(xv.T.Sort, "(Array "):
		var et types.Type
		if xv.Typ != nil {
			if a, ok := xv.Typ.Underlying().(*types.Array); ok {
				et = a.Elem()
			}
		}
		return Val{T: Select(xv.T, iv.T), Typ: et}, nil
	case xv.T.Sort == SRef && xv.Typ != nil:
		if mt, ok := xv.Typ.Underlying().(*types.Map); ok {
			ks, vs := x.S.SortOf(mt.Key()), x.S.SortOf(mt.Elem())
			if iv.T.Sort == SRef && ks != SRef {
				if kv, err := x.bindingValDeref(st, sc, iv); err == nil {
					iv = kv
				}
			}
			vn, vsrt := "MV."+ks+"."+vs, ArraySort(SRef, ArraySort(ks, vs))
			arr := heapArrIn(x, x.heapFor(st, sc), vn, vsrt)
			dn, ds := "MD."+ks, ArraySort(SRef, ArraySort(ks, SBool))
			dom := heapArrIn(x, x.heapFor(st, sc), dn, ds)
			// m[k] in a spec is Go's m[k]: the zero value when k is absent
			return Val{T: Ite(Select(Select(dom, xv.T), iv.T), Select(Select(arr, xv.T), iv.T), x.S.Zero(mt.Elem())), Typ: mt.Elem()}, nil
		}
	}
	return Val{}, fmt.Errorf("cannot index %s", xv.T.Sort)
}

func (x *Exec) evalCall(st *State, fr *Frame, e ECall, sc *scope) (Val, error) {
	if e.Fun == "local" && e.Recv == nil && len(e.Args) == 1 {
		// local(name): the function's own variable of that name, even when a spec name (err, result)
		// shadows it
		if id, ok := e.Args[0].(EIdent); ok {
			c := sc.child()
			delete(c.vars, id.Name)
			c.preferLocal = true
			return x.lookupIdent(st, fr, id.Name, c)
		}
	}
	if e.Fun == "head" && e.Recv == nil && len(e.Args) == 1 {
		// head(e), in a per-iteration postcondition: e in the heap as it was when this iteration started
		if sc.headHeap == nil {
			return Val{}, fmt.Errorf("head(e) is only meaningful in a back_edge_ensures clause")
		}
		c := sc.child()
		c.inOld, c.oldHeap, c.oldWorlds = true, sc.headHeap, sc.headWorlds
		c.inHead = true
		return x.evalSpec(st, fr, e.Args[0], c)
	}
	if e.Fun == "after" && e.Recv == nil && len(e.Args) == 2 {
		// after("pattern", e): e evaluated in the heap as it was when the most recent call of a
		// matching callee returned on this path
		lit, ok := e.Args[0].(EStr)
		if !ok || st == nil {
			return Val{}, fmt.Errorf("after needs a string literal")
		}
		for _, k := range sortedKeys(st.retHeaps) {
			if matchCallee(lit.V, k) {
				c := sc.child()
				c.inOld, c.oldHeap, c.oldWorlds = true, st.retHeaps[k], nil
				return x.evalSpec(st, fr, e.Args[1], c)
			}
		}
		return Val{}, fmt.Errorf("after: no call matching %q returned on this path", lit.V)
	}
	var args []Val
	if e.Recv != nil {
		// W(ctx).ghost handled in evalSel; method-style calls: treat x.f(args) as f(x, args)
		rv, err := x.evalSpec(st, fr, e.Recv, sc)
		if err != nil {
			return Val{}, err
		}
		args = append(args, rv)
	}
	for _, a := range e.Args {
		v, err := x.evalSpec(st, fr, a, sc)
		if err != nil {
			return Val{}, err
		}
		args = append(args, v)
	}
	switch e.Fun {
	case "W":
		if len(args) == 1 && args[0].World > 0 {
			return Val{T: x.worldFor(st, sc, args[0].World-1).Ver, World: args[0].World}, nil
		}
		return Val{}, fmt.Errorf("W(x): x is not a context with a known world")
	case "len":
		a := args[0]
		switch a.T.Sort {
		case SSlice:
			return Val{T: App(SInt, "s.len", a.T), Typ: types.Typ[types.Int]}, nil
		case SStr:
			return Val{T: App(SInt, "str.len_", a.T), Typ: types.Typ[types.Int]}, nil
		case SBytes:
			if a.OfSlice != nil {
				return Val{T: App(SInt, "s.len", *a.OfSlice), Typ: types.Typ[types.Int]}, nil
			}
			return Val{T: App(SInt, "bytes.len_", a.T), Typ: types.Typ[types.Int]}, nil
		}
		if a.Typ != nil {
			if at, ok := a.Typ.Underlying().(*types.Array); ok {
				return Val{T: IntLit(at.Len()), Typ: types.Typ[types.Int]}, nil
			}
		}
		return Val{}, fmt.Errorf("len of %s", a.T.Sort)
	case "sum", "sumfield":
		// sum(s, n): s[0] + … + s[n-1] over an integer (or math.Int) slice, as a mathematical integer;
		// sumfield(s, "F", n): the same over field F of struct elements. Defined by recursion on n; the
		// executor adds the one-step unfolding at n as a ground fact wherever the term is mentioned
		// (enough for accumulator loops, and free of quantifier triggers).
		sl := args[0]
		nArg := args[len(args)-1]
		if sl.T.Sort != SSlice || sl.Typ == nil || st == nil {
			return Val{}, fmt.Errorf("%s(): first argument is not a slice", e.Fun)
		}
		st0, ok := sl.Typ.Underlying().(*types.Slice)
		if !ok {
			return Val{}, fmt.Errorf("%s(): first argument is not a slice", e.Fun)
		}
		esort := x.S.SortOf(st0.Elem())
		an, as := elemArrName(esort)
		row := Select(heapArrIn(x, x.heapFor(st, sc), an, as), App(SRef, "s.base", sl.T))
		off := App(SInt, "s.off", sl.T)
		tag := mangle(esort)
		elemAt := func(i Term) (Term, error) {
			el := Select(row, App(SInt, "+", off, i))
			if e.Fun == "sumfield" {
				lit, ok := e.Args[1].(EStr)
				si := x.S.StructInfo(st0.Elem())
				if !ok || si == nil {
					return Term{}, fmt.Errorf("sumfield(s, \"Field\", n) needs a slice of structs and a field name")
				}
				found := false
				for fi := 0; fi < si.typ.NumFields(); fi++ {
					if si.typ.Field(fi).Name() == lit.V {
						el = App(si.fields[fi], x.S.fieldSel(si.sort, si.typ, fi), el)
						found = true
					}
				}
				if !found {
					return Term{}, fmt.Errorf("sumfield: no field %s", lit.V)
				}
			}
			switch el.Sort {
			case SInt:
				return el, nil
			case SMInt:
				return App(SInt, "mint.v", el), nil
			}
			return Term{}, fmt.Errorf("%s(): elements are not integers", e.Fun)
		}
		if e.Fun == "sumfield" {
			if lit, ok := e.Args[1].(EStr); ok {
				tag += "." + mangle(lit.V)
			}
		}
		fn := "sum." + tag
		x.D.DeclareFun(fn, []string{ArraySort(SInt, esort), SInt, SInt}, SInt)
		if x.sumFuns == nil {
			x.sumFuns = map[string]map[string]bool{}
		}
		if x.sumFuns[esort] == nil {
			x.sumFuns[esort] = map[string]bool{}
		}
		x.sumFuns[esort][fn] = true
		mk := func(n Term) Term { return App(SInt, fn, row, off, n) }
		n := nArg.T
		pred := App(SInt, "-", n, IntLit(1))
		last, err := elemAt(pred)
		if err != nil {
			return Val{}, err
		}
		st.assume(Ite(App(SBool, "<=", n, IntLit(0)), Eq(mk(n), IntLit(0)), Eq(mk(n), App(SInt, "+", mk(pred), last))))
		return Val{T: mk(n), Typ: types.Typ[types.UntypedInt]}, nil
	case "val":
		if args[0].T.Sort == SMInt {
			return Val{T: App(SInt, "mint.v", args[0].T)}, nil
		}
		return args[0], nil
	case "isnil":
		a := args[0]
		switch a.T.Sort {
		case SMInt:
			return Val{T: App(SBool, "mint.nil", a.T)}, nil
		case SRef:
			return Val{T: Eq(a.T, TNull)}, nil
		case SIface:
			return Val{T: Eq(a.T, TINil)}, nil
		case SSlice:
			return Val{T: Eq(App(SRef, "s.base", a.T), TNull)}, nil
		case "Rat":
			return Val{T: App(SBool, "rat.nil", a.T)}, nil
		}
		return Val{}, fmt.Errorf("isnil of %s", a.T.Sort)
	case "num":
		return Val{T: App(SInt, "rat.num", args[0].T)}, nil
	case "den":
		return Val{T: App(SInt, "rat.den", args[0].T)}, nil
	case "mint":
		return Val{T: App(SMInt, "mk-mint", TFalse, args[0].T)}, nil
	case "bytes":
		if args[0].T.Sort == SBytes {
			return args[0], nil
		}
		if args[0].T.Sort == SSlice {
			return Val{T: x.bytesOfIn(x.heapFor(st, sc), args[0].T)}, nil
		}
		return Val{}, fmt.Errorf("bytes() of %s", args[0].T.Sort)
	case "tdiv":
		// Go's truncated integer division, encoded exactly like the executor encodes math.Int.Quo
		return Val{T: x.truncDiv(x.intOf(args[0]), x.intOf(args[1]), false, nil)}, nil
	case "ratnum", "ratden", "ratok":
		// the deterministic parse of a rational number string (big.Rat.SetString)
		x.D.DeclareFun("rat.parse.ok", []string{SStr}, SBool)
		x.D.DeclareFun("rat.parse.num", []string{SStr}, SInt)
		x.D.DeclareFun("rat.parse.den", []string{SStr}, SInt)
		switch e.Fun {
		case "ratnum":
			return Val{T: App(SInt, "rat.parse.num", args[0].T)}, nil
		case "ratden":
			return Val{T: App(SInt, "rat.parse.den", args[0].T)}, nil
		}
		return Val{T: App(SBool, "rat.parse.ok", args[0].T)}, nil
	case "aserror":
		// aserror(x): x converted to the error interface, exactly as the compiler boxes it at a call
		if args[0].T.Sort == SIface {
			return args[0], nil
		}
		if args[0].Typ == nil || st == nil {
			return Val{}, fmt.Errorf("aserror(): static type unknown")
		}
		return x.makeIface(st, args[0], args[0].Typ, types.Universe.Lookup("error").Type()), nil
	case "accaddr", "valaddr":
		// the address bytes a bech32 string decodes to (same symbol as the native models of
		// sdk.AccAddressFromBech32 / ValAddressFromBech32)
		fn := e.Fun[:3] + ".frombech32"
		x.D.DeclareFun(fn, []string{SStr}, SBytes)
		return Val{T: App(SBytes, fn, args[0].T)}, nil
	case "has":
		// has(m, k): key k is present in map m
		if args[0].Typ != nil {
			if mt, ok := args[0].Typ.Underlying().(*types.Map); ok {
				ks := x.S.SortOf(mt.Key())
				dn, ds := "MD."+ks, ArraySort(SRef, ArraySort(ks, SBool))
				key := args[1]
				if key.T.Sort == SRef && ks != SRef {
					// a struct local named through its address: the key is its value
					if kv, err := x.bindingValDeref(st, sc, key); err == nil {
						key = kv
					}
				}
				return Val{T: Select(Select(heapArrIn(x, x.heapFor(st, sc), dn, ds), args[0].T), key.T)}, nil
			}
		}
		return Val{}, fmt.Errorf("has(): first argument is not a map")
	case "bech32val", "bech32acc":
		// the String() rendering of a validator / account address (same symbol as the native model)
		fn := "bech32." + e.Fun[6:]
		x.D.DeclareFun(fn, []string{SBytes}, SStr)
		b := args[0].T
		if b.Sort == SSlice {
			b = x.bytesOfIn(x.heapFor(st, sc), b)
		}
		return Val{T: App(SStr, fn, b)}, nil
	case "payload":
		// payload(x): the statically known dynamic value inside an interface value
		if args[0].T.Sort == SIface && args[0].Dyn != nil {
			return *args[0].Dyn, nil
		}
		// not statically known: when the function itself asserts this very value to exactly one
		// concrete type, payload(x) is that assertion's result (the unboxing the code performs)
		if args[0].T.Sort == SIface && fr != nil && fr.fn != nil {
			var target, anyTarget types.Type
			anyMixed := false
			for _, b := range fr.fn.Blocks {
				for _, in := range b.Instrs {
					ta, ok := in.(*ssa.TypeAssert)
					if !ok {
						continue
					}
					if _, isIface := ta.AssertedType.Underlying().(*types.Interface); isIface {
						continue
					}
					if anyTarget == nil {
						anyTarget = ta.AssertedType
					} else if !types.Identical(anyTarget, ta.AssertedType) {
						anyMixed = true
					}
					xv, bound := fr.env[ta.X]
					if !bound || xv.T.S != args[0].T.S {
						continue
					}
					if target != nil && !types.Identical(target, ta.AssertedType) {
						return Val{}, fmt.Errorf("payload(): the function asserts the value to several types")
					}
					target = ta.AssertedType
				}
			}
			if target == nil && anyTarget != nil && !anyMixed {
				// the value is not (yet) an operand of an assertion on this path, but every assertion
				// to a concrete type in this function is to one and the same type
				target = anyTarget
			}
			if target != nil {
				tid := x.S.TypeID(target)
				sort := x.S.SortOf(target)
				unbox := fmt.Sprintf("unbox_%d", tid)
				x.D.DeclareFun(fmt.Sprintf("box_%d", tid), []string{sort}, SIface)
				x.D.DeclareFun(unbox, []string{SIface}, sort)
				return Val{T: App(sort, unbox, args[0].T), Typ: target}, nil
			}
		}
		return Val{}, fmt.Errorf("payload(): dynamic value of the interface is not statically known")
	case "lastret":
		// lastret("pattern"[, k]): the value the most recent call to a matching callee returned on this
		// path (for several results: the k-th, by default the last one, i.e. the error)
		if lit, ok := e.Args[0].(EStr); ok && st != nil {
			k := -1
			if len(e.Args) == 2 {
				if n, ok := e.Args[1].(EInt); ok {
					fmt.Sscan(n.V, &k)
				}
			}
			for _, key := range sortedKeys(st.meta) {
				if strings.HasPrefix(key, "ret:") && matchCallee(lit.V, key[4:]) {
					v := st.meta[key]
					if len(v.Tup) > 0 {
						if k >= 0 && k < len(v.Tup) {
							return v.Tup[k], nil
						}
						return v.Tup[len(v.Tup)-1], nil
					}
					return v, nil
				}
			}
			// no such call on this path: an arbitrary value (sound: unconstrained) of the callee's
			// result type when a function of that name is known, else an interface value (lastret
			// is mostly used on error results)
			if x.Top != nil {
				// a call site of the function under contract names the callee (library functions too)
				for _, b := range x.topAndHelperBlocks() {
					for _, in := range b.Instrs {
						c, ok := in.(*ssa.Call)
						if !ok {
							continue
						}
						n := staticCalleeName(c.Common())
						if n == "" && !c.Common().IsInvoke() {
							n = "<dynamic>"
						}
						if n != "" && matchCallee(lit.V, n) {
							res := c.Common().Signature().Results()
							if res.Len() == 0 {
								continue
							}
							i := res.Len() - 1
							if k >= 0 && k < res.Len() {
								i = k
							}
							return x.freshVal(st, "lastret.none", res.At(i).Type()), nil
						}
					}
				}
			}
			for _, name := range sortedKeys(x.P.Funcs) {
				if !matchCallee(lit.V, name) {
					continue
				}
				res := x.P.Funcs[name].Signature.Results()
				if res.Len() == 0 {
					break
				}
				i := res.Len() - 1
				if k >= 0 && k < res.Len() {
					i = k
				}
				return x.freshVal(st, "lastret.none", res.At(i).Type()), nil
			}
			return Val{T: x.D.Fresh("lastret.none", SIface)}, nil
		}
		return Val{}, fmt.Errorf("lastret needs a string literal")
	case "lastarg":
		// lastarg("pattern", k): the k-th argument (receiver first for methods) handed to the most
		// recent call of a matching callee on this path; unconstrained if there was no such call
		if lit, ok := e.Args[0].(EStr); ok && st != nil && len(e.Args) == 2 {
			k := -1
			if n, ok := e.Args[1].(EInt); ok {
				fmt.Sscan(n.V, &k)
			}
			for _, key := range sortedKeys(st.meta) {
				if strings.HasPrefix(key, "args:") && matchCallee(lit.V, key[5:]) {
					v := st.meta[key]
					if sc.guardCallee != "" && key[5:] == sc.guardCallee {
						pv, ok := st.meta["prevargs:"+key[5:]]
						if !ok {
							continue // first call of this callee: there is no earlier one
						}
						v = pv
					}
					cf := x.P.Funcs[key[5:]]
					if cf == nil {
						cf = x.P.Funcs[stripTypeArgs(key[5:])] // an instance: same parameter names as the generic function
					}
					if cf != nil && k >= 0 && len(cf.Params) == len(v.Tup) {
						k = recordedParamIndex(key[5:], cf, k) // the parameter that was k-th when recorded
					}
					if k >= 0 && k < len(v.Tup) {
						return v.Tup[k], nil
					}
					return Val{}, fmt.Errorf("lastarg: call to %s has %d arguments", key[5:], len(v.Tup))
				}
			}
			// no such call on this path: an arbitrary (unconstrained) value of the argument's type,
			// taken from a call site of the function under contract
			if x.Top != nil && k >= 0 {
				// (also from the helpers that were extracted from it since the ledger was recorded)
				for _, b := range x.topAndHelperBlocks() {
					for _, in := range b.Instrs {
						c, ok := in.(*ssa.Call)
						if !ok {
							continue
						}
						n := staticCalleeName(c.Common())
						if n == "" && !c.Common().IsInvoke() {
							n = "<dynamic>"
						}
						if n == "" || !matchCallee(lit.V, n) {
							continue
						}
						var ats []types.Type
						var avs []ssa.Value
						if c.Common().IsInvoke() {
							ats = append(ats, c.Common().Value.Type())
							avs = append(avs, c.Common().Value)
						}
						for _, a := range c.Common().Args {
							ats = append(ats, a.Type())
							avs = append(avs, a)
						}
						if k < len(ats) {
							v := x.freshVal(st, "lastarg.none", ats[k])
							if mi, ok := avs[k].(*ssa.MakeInterface); ok {
								// the site boxes a value of a known type: keep payload() usable
								d := x.freshVal(st, "lastarg.none.dyn", mi.X.Type())
								v.Dyn = &d
							}
							return v, nil
						}
					}
				}
			}
			return Val{}, fmt.Errorf("lastarg: no call matching %q on this path", lit.V)
		}
		return Val{}, fmt.Errorf("lastarg needs a string literal and an index")
	case "ncalls":
		// ncalls("pattern"): number of calls made so far on this path to callees matching the pattern
		if lit, ok := e.Args[0].(EStr); ok && st != nil {
			counts, syms := st.callCounts, st.callSyms
			if sc.inHead && sc.headCounts != nil {
				counts, syms = sc.headCounts, sc.headSyms // head(ncalls("f")): as of the start of this iteration
			}
			n := 0
			for k, v := range counts {
				if strings.HasPrefix(k, "n:") && matchCallee(lit.V, k[2:]) {
					n += v
				}
			}
			t := IntLit(int64(n))
			// calls made in loop iterations that were cut away: one symbol per callee
			for _, k := range sortedKeys(syms) {
				if matchCallee(lit.V, k) {
					t = App(SInt, "+", t, syms[k])
				}
			}
			return Val{T: t}, nil
		}
		return Val{}, fmt.Errorf("ncalls needs a string literal")
	case "strofbytes":
		// string(b): the string holding the bytes of b (same symbol as the model of the conversion)
		x.D.DeclareFun("str.ofbytes", []string{SBytes}, SStr)
		b := args[0].T
		if b.Sort == SSlice {
			b = x.bytesOfIn(x.heapFor(st, sc), b)
		}
		if b.Sort != SBytes {
			return Val{}, fmt.Errorf("strofbytes(): argument is not a byte slice")
		}
		return Val{T: App(SStr, "str.ofbytes", b)}, nil
	case "bytesofstr":
		// content of []byte(s)
		x.D.DeclareFun("bytes.ofstr", []string{SStr}, SBytes)
		return Val{T: App(SBytes, "bytes.ofstr", args[0].T)}, nil
	case "select":
		return Val{T: Select(args[0].T, args[1].T)}, nil
	case "store":
		return Val{T: Store(args[0].T, args[1].T, args[2].T)}, nil
	case "deref":
		l := x.lvalOf(args[0])
		t, ct, err := x.loadLV(x.heapFor(st, sc), l)
		if err != nil {
			return Val{}, err
		}
		return Val{T: t, Typ: ct}, nil
	case "abs":
		return Val{T: Ite(App(SBool, ">=", args[0].T, IntLit(0)), args[0].T, App(SInt, "-", args[0].T))}, nil
	case "min":
		return Val{T: Ite(App(SBool, "<=", args[0].T, args[1].T), args[0].T, args[1].T)}, nil
	case "max":
		return Val{T: Ite(App(SBool, ">=", args[0].T, args[1].T), args[0].T, args[1].T)}, nil
	case "real":
		if args[0].T.Sort == SInt {
			return Val{T: App(SReal, "to_real", args[0].T)}, nil
		}
		return args[0], nil
	case "typeis":
		// typeis(x, "pkg.Type")
		return Val{}, fmt.Errorf("typeis unsupported")
	}
	// declared spec functions
	if sf, ok := x.specFuns[e.Fun]; ok {
		var ts []Term
		for i, a := range args {
			t := a.T
			if i < len(sf.args) && sf.args[i] == SInt && t.Sort == SMInt {
				t = App(SInt, "mint.v", t)
			}
			ts = append(ts, t)
		}
		return Val{T: App(sf.res, sf.smtName, ts...)}, nil
	}
	stq := st
	if sc.inQuant {
		stq = nil // no side assumptions about terms that mention bound variables
	}
	if v, ok := x.specPure(stq, x.heapFor(st, sc), e.Fun, args); ok {
		return v, nil
	}
	return Val{}, fmt.Errorf("unknown spec function %s", e.Fun)
}

type specFun struct {
	smtName string
	args    []string
	res     string
}

func (x *Exec) intOf(v Val) Term {
	if v.T.Sort == SMInt {
		return App(SInt, "mint.v", v.T)
	}
	return v.T
}

// quantPattern picks, for every bound variable, the smallest `(select ...)` sub-term of the body that
// mentions it; the multi-pattern is the set of those terms. Empty when some variable has none.
func quantPattern(body string, vars []string) string {
	var sels []string
	for i := 0; i+8 <= len(body); i++ {
		if !strings.HasPrefix(body[i:], "(select ") {
			continue
		}
		depth := 0
		for j := i; j < len(body); j++ {
			if body[j] == '(' {
				depth++
			} else if body[j] == ')' {
				depth--
				if depth == 0 {
					sels = append(sels, body[i:j+1])
					break
				}
			}
		}
	}
	mentions := func(t, v string) bool {
		for k := 0; k+len(v) <= len(t); k++ {
			if t[k:k+len(v)] == v {
				before := k == 0 || t[k-1] == ' ' || t[k-1] == '('
				after := k+len(v) == len(t) || t[k+len(v)] == ' ' || t[k+len(v)] == ')'
				if before && after {
					return true
				}
			}
		}
		return false
	}
	chosen := map[string]bool{}
	var out []string
	for _, v := range vars {
		best := ""
		for _, t := range sels {
			if !mentions(t, v) {
				continue
			}
			// a pattern may not contain other quantifier binders (nested quantifiers in the term)
			if strings.Contains(t, "(forall ") || strings.Contains(t, "(exists ") {
				continue
			}
			if best == "" || len(t) < len(best) {
				best = t
			}
		}
		if best == "" {
			return ""
		}
		if !chosen[best] {
			chosen[best] = true
			out = append(out, best)
		}
	}
	return strings.Join(out, " ")
}

var intCmpRe = regexp.MustCompile(`^\((=|<|<=|>|>=) (-?[0-9]+) (-?[0-9]+)\)$`)

// constFalse: the term is the literal false or a comparison of two integer literals that is false.
func constFalse(t Term) bool {
	if t.S == "false" {
		return true
	}
	m := intCmpRe.FindStringSubmatch(t.S)
	if m == nil {
		return false
	}
	a, _ := strconv.ParseInt(m[2], 10, 64)
	b, _ := strconv.ParseInt(m[3], 10, 64)
	switch m[1] {
	case "=":
		return a != b
	case "<":
		return !(a < b)
	case "<=":
		return !(a <= b)
	case ">":
		return !(a > b)
	case ">=":
		return !(a >= b)
	}
	return false
}


// helperLocal: a local of the recorded function under contract that is gone from it because the lines
// that defined it were moved into a new helper which has already returned on this path: the value it had
// when the helper returned. The helper's local is the one with the recorded definition, else the one with
// the recorded name; it must be unique among the helpers that ran.
func (x *Exec) helperLocal(st *State, fr *Frame, name string) (Val, bool) {
	if os.Getenv("GVC_NO_RENAME") != "" || st.meta == nil {
		return Val{}, false
	}
	base := loadBaseNames()[baseKey(fr.fn)]
	want, ok := base[name]
	if !ok || want == "" {
		return Val{}, false
	}
	if _, still := currentNames(fr.fn)[name]; still {
		return Val{}, false
	}
	var byDef, byName []string
	for k := range st.meta {
		if !strings.HasPrefix(k, "hl:") {
			continue
		}
		rest := k[3:]
		i := strings.LastIndex(rest, ":")
		if i < 0 {
			continue
		}
		hfn, hn := rest[:i], rest[i+1:]
		f := x.P.Funcs[hfn]
		if f == nil {
			continue
		}
		if currentNames(f)[hn] == want {
			byDef = append(byDef, k)
		}
		if hn == name {
			byName = append(byName, k)
		}
	}
	pick := ""
	switch {
	case len(byDef) == 1:
		pick = byDef[0]
	case len(byDef) == 0 && len(byName) == 1:
		pick = byName[0]
	}
	if pick == "" {
		return Val{}, false
	}
	x.Abstracted["local that moved into an extracted helper, read after the helper returned: "+name]++
	return st.meta[pick], true
}


// newHelpersOfTop: the functions of the package of the function under contract that did not exist when
// the ledger was recorded (helpers extracted since), by name.
func (x *Exec) newHelpersOfTop() []*ssa.Function {
	if x.Top == nil || x.Top.Pkg == nil {
		return nil
	}
	var hn []string
	for n, f := range x.P.Funcs {
		if f != nil && f.Pkg == x.Top.Pkg && f != x.Top && isNewHelper(n, f) {
			hn = append(hn, n)
		}
	}
	sort.Strings(hn)
	var out []*ssa.Function
	for _, n := range hn {
		out = append(out, x.P.Funcs[n])
	}
	return out
}

// topAndHelperBlocks: the blocks of the function under contract and of the helpers extracted from its
// package since the ledger was recorded (where its call sites may have moved).
func (x *Exec) topAndHelperBlocks() []*ssa.BasicBlock {
	var blocks []*ssa.BasicBlock
	blocks = append(blocks, x.Top.Blocks...)
	for _, f := range x.newHelpersOfTop() {
		blocks = append(blocks, f.Blocks...)
	}
	return blocks
}
