package gvc

// Generated accessors. protoc-gen-gogo emits, for every field X of a message T,
//
//	func (m *T) GetX() X { if m != nil { return m.X }; return <zero> }
//
// and maintainers switch freely between m.GetX() and m.X. Such a getter -- recognised by the shape of its
// SSA body, not by its name -- is therefore read as exactly that: `m == nil ? zero : m.X`, as one term
// (no path split), both where the code calls it and where a contract applies it as a pure function. A
// clause written with the getter keeps holding when the code reads the field, and the other way round.

import (
	"go/token"
	"go/types"
	"strings"

	"golang.org/x/tools/go/ssa"
)

// getterField: fn is `func (m *T) G() X { if m != nil { return m.f }; return zero }` -> index of f.
func getterField(fn *ssa.Function) (int, bool) {
	if fn == nil || len(fn.Params) != 1 || len(fn.Blocks) != 3 || fn.Signature.Results().Len() != 1 {
		return 0, false
	}
	recv := fn.Params[0]
	pt, ok := recv.Type().Underlying().(*types.Pointer)
	if !ok {
		return 0, false
	}
	if _, ok := pt.Elem().Underlying().(*types.Struct); !ok {
		return 0, false
	}
	b0 := fn.Blocks[0]
	var cond *ssa.BinOp
	var br *ssa.If
	for _, in := range b0.Instrs {
		switch x := in.(type) {
		case *ssa.BinOp:
			cond = x
		case *ssa.If:
			br = x
		case *ssa.DebugRef:
		default:
			return 0, false
		}
	}
	if cond == nil || br == nil || br.Cond != ssa.Value(cond) || cond.Op != token.NEQ || cond.X != ssa.Value(recv) {
		return 0, false
	}
	if c, ok := cond.Y.(*ssa.Const); !ok || !c.IsNil() {
		return 0, false
	}
	thenB, elseB := b0.Succs[0], b0.Succs[1]
	// then: t = &m.f ; v = *t ; return v
	var fa *ssa.FieldAddr
	var ld *ssa.UnOp
	var ret *ssa.Return
	for _, in := range thenB.Instrs {
		switch x := in.(type) {
		case *ssa.FieldAddr:
			fa = x
		case *ssa.UnOp:
			ld = x
		case *ssa.Return:
			ret = x
		case *ssa.DebugRef:
		default:
			return 0, false
		}
	}
	if fa == nil || ld == nil || ret == nil || fa.X != ssa.Value(recv) || ld.Op != token.MUL || ld.X != ssa.Value(fa) || len(ret.Results) != 1 || ret.Results[0] != ssa.Value(ld) {
		return 0, false
	}
	// else: return <constant zero value>
	for _, in := range elseB.Instrs {
		switch x := in.(type) {
		case *ssa.Return:
			if len(x.Results) != 1 {
				return 0, false
			}
			if _, ok := x.Results[0].(*ssa.Const); !ok {
				return 0, false
			}
		case *ssa.DebugRef:
		default:
			return 0, false
		}
	}
	return fa.Field, true
}

// getterValue: the value of the recognised getter fn applied to recv in heap h.
// knownNonNil: the path already carries the fact that t is not nil (an allocation of this call, or a
// pointer that was dereferenced before).
func knownNonNil(st *State, t Term) bool {
	if st == nil {
		return false
	}
	want := Not(Eq(t, TNull)).S
	for i := len(st.facts) - 1; i >= 0; i-- {
		if st.facts[i].S == want {
			return true
		}
	}
	return false
}

func (x *Exec) getterValue(h map[string]Term, fn *ssa.Function, recv Val) (Val, bool) {
	return x.getterValueSt(nil, h, fn, recv)
}

func (x *Exec) getterValueSt(st *State, h map[string]Term, fn *ssa.Function, recv Val) (Val, bool) {
	idx, ok := getterField(fn)
	if !ok {
		return Val{}, false
	}
	var recvT types.Type
	if len(fn.Params) > 0 {
		recvT = fn.Params[0].Type()
	} else if fn.Signature.Recv() != nil {
		recvT = fn.Signature.Recv().Type()
	} else {
		return Val{}, false
	}
	pt := recvT.Underlying().(*types.Pointer).Elem()
	if recv.T.Sort != SRef {
		// applied (in a specification) to the struct value itself: the field of that value
		si := x.S.StructInfo(pt)
		if si == nil || recv.T.Sort != si.sort || idx >= len(si.fields) {
			return Val{}, false
		}
		rt := fn.Signature.Results().At(0).Type()
		return Val{T: App(si.fields[idx], x.S.fieldSel(si.sort, si.typ, idx), recv.T), Typ: rt}, true
	}
	l := x.lvalOf(recv)
	if l == nil {
		return Val{}, false
	}
	nl := l.extend(lstep{field: idx, ct: pt})
	t, ct, err := x.loadLV(h, nl)
	if err != nil {
		return Val{}, false
	}
	rt := fn.Signature.Results().At(0).Type()
	zero := x.S.Zero(rt)
	if zero.Sort != t.Sort {
		return Val{}, false
	}
	_ = ct
	if knownNonNil(st, recv.T) {
		// no case split where the receiver is known to exist; the loaded value gets a name of its own, as
		// every load of the code does (keeps the terms small)
		return Val{T: x.define(st, "ld", t), Typ: rt}, true
	}
	return Val{T: Ite(Eq(recv.T, TNull), zero, t), Typ: rt}, true
}

// getterFieldNoBody: the same for a getter whose package was loaded without function bodies (a dependency
// of the packages under check): a method GetX of *T declared in a generated *.pb.go file, where T has a
// field X of exactly the result type. The shape of the body is then taken on trust from the generator.
func getterFieldNoBody(fn *ssa.Function) (int, bool) {
	if fn.Signature == nil || fn.Signature.Recv() == nil || fn.Signature.Params().Len() != 0 || fn.Signature.Results().Len() != 1 {
		return 0, false
	}
	name := fn.Name()
	if !strings.HasPrefix(name, "Get") || len(name) < 4 {
		return 0, false
	}
	pt, ok := fn.Signature.Recv().Type().Underlying().(*types.Pointer)
	if !ok {
		return 0, false
	}
	st, ok := pt.Elem().Underlying().(*types.Struct)
	if !ok {
		return 0, false
	}
	obj := fn.Object()
	if obj == nil || fn.Prog == nil || fn.Prog.Fset == nil || !strings.HasSuffix(fn.Prog.Fset.Position(obj.Pos()).Filename, ".pb.go") {
		return 0, false
	}
	for i := 0; i < st.NumFields(); i++ {
		if st.Field(i).Name() == name[3:] && types.Identical(st.Field(i).Type(), fn.Signature.Results().At(0).Type()) {
			return i, true
		}
	}
	return 0, false
}
