package gvc

// Property driver: regenerate and discharge the obligations of one property, compare with the
// ledger, replay refutations on the real code, write evidence, set the exit code (DESIGN section 3).

import (
	"regexp"
	"encoding/json"
	"flag"
	"fmt"
	"os"
	"os/exec"
	"path/filepath"
	"sort"
	"strconv"
	"strings"
	"sync"
	"time"
)

const VerifDir = "/verif"

type PropConfig struct {
	ID            string        `json:"id"`
	Packages      []string      `json:"packages"`
	Functions     []string      `json:"functions,omitempty"`   // optional explicit list; default: all contracts in zz_verif_<id>.go files
	Instantiate   []string      `json:"instantiate,omitempty"` // generic types whose methods are loaded as instances ("pkg.Type[int64]")
	Inline        []string      `json:"inline,omitempty"`
	NoInline      []string      `json:"noinline,omitempty"`
	MaxPaths      int           `json:"max_paths,omitempty"`
	AutoInlineMax int           `json:"auto_inline_max,omitempty"`
	Scans         []ScanSpec    `json:"scans,omitempty"`
	Assumptions   []string      `json:"assumptions,omitempty"`
	NotDecided    []string      `json:"not_decided,omitempty"`
	Bounded       []BoundedSpec `json:"bounded,omitempty"`
}

type BoundedSpec struct {
	Name  string `json:"name"`
	Pkg   string `json:"pkg"`            // package dir relative to repo
	File  string `json:"file"`           // test source under /verif/bounded
	Run   string `json:"run"`            // -run pattern
	Bound string `json:"bound"`          // human-readable bound
	Tier  string `json:"tier,omitempty"` // "thorough" = only in thorough tier
}

type LedgerEntry struct {
	Name    string `json:"name"`
	Family  string `json:"family"`
	Backend string `json:"backend,omitempty"`
	Ms      int64  `json:"ms,omitempty"`
}

type KnownFindings struct {
	Open []struct {
		Property   string `json:"property"`
		Obligation string `json:"obligation"`
		Witness    string `json:"witness"`
		Note       string `json:"note,omitempty"`
	} `json:"open"`
	Fixed []string `json:"fixed"`
}

type ReplayRecord struct {
	Property     string   `json:"property"`
	Obligation   string   `json:"obligation"`
	Verdict      string   `json:"verdict"` // replayed | not-reproduced | no-model | no-template
	Reason       string   `json:"reason"`
	SolverOutput string   `json:"solver_output,omitempty"`
	Model        string   `json:"model,omitempty"`
	Trace        []string `json:"trace,omitempty"`
	SMTFile      string   `json:"smt_file,omitempty"`
	TestPkg      string   `json:"test_pkg,omitempty"`
	TestFile     string   `json:"test_file,omitempty"`
	TestCmd      string   `json:"test_cmd,omitempty"`
	TestOutput   string   `json:"test_output,omitempty"`
	Witness      string   `json:"witness,omitempty"`
}

func loadJSON(path string, v any) error {
	b, err := os.ReadFile(path)
	if err != nil {
		return err
	}
	return json.Unmarshal(b, v)
}

func CmdCheck(args []string) int {
	fs := flag.NewFlagSet("check", flag.ExitOnError)
	tier := fs.String("tier", "", "quick|thorough")
	propose := fs.Bool("propose-ledger", false, "write ledger from this run (developer only, never used by registered checks)")
	verbose := fs.Bool("v", false, "verbose")
	if len(args) < 1 {
		fmt.Println("usage: gvc check <Cxx> [--tier quick|thorough]")
		return 2
	}
	id := args[0]
	fs.Parse(args[1:])
	if *tier == "" {
		*tier = os.Getenv("VERIF_TIER")
	}
	if *tier == "" {
		*tier = "quick"
	}
	seed := 0
	if s := os.Getenv("VERIF_SEED"); s != "" {
		seed, _ = strconv.Atoi(s)
	}
	return runCheck(id, *tier, seed, *propose, *verbose)
}

func envList() []string {
	return append(os.Environ(), "GOFLAGS=-mod=mod", "GOPROXY=off", "GOSUMDB=off", "GOTOOLCHAIN=local")
}

func runCheck(id, tier string, seed int, propose, verbose bool) int {
	t0 := time.Now()
	var cfg PropConfig
	if err := loadJSON(filepath.Join(VerifDir, "props", id+".json"), &cfg); err != nil {
		fmt.Println("cannot load property config:", err)
		return 2
	}
	outRoot := VerifDir
	if d := os.Getenv("GVC_VERIF_OUT"); d != "" {
		outRoot = d // selftest runs write their evidence / replays elsewhere
	}
	evidencePath := filepath.Join(outRoot, "evidence", id+".json")
	os.MkdirAll(filepath.Dir(evidencePath), 0o755)
	outDir := filepath.Join(outRoot, "out", id)
	os.RemoveAll(outDir)
	os.MkdirAll(outDir, 0o755)
	replayDir := filepath.Join(outRoot, "replays", id)
	os.RemoveAll(replayDir)

	var violations []string
	var known []string
	fail := func(obl, reason string, rec *ReplayRecord) {
		os.MkdirAll(replayDir, 0o755)
		rec.Property, rec.Obligation, rec.Reason = id, obl, reason
		path := filepath.Join(replayDir, mangle(obl)+".json")
		b, _ := json.MarshalIndent(rec, "", " ")
		os.WriteFile(path, b, 0o644)
		line := fmt.Sprintf("VIOLATION property=%s replay=%s", id, path)
		if rec.Verdict != "replayed" {
			line += " no-failing-input-found"
		}
		violations = append(violations, line)
	}

	ExtraInstances = cfg.Instantiate
	P, err := LoadProgram(cfg.Packages)
	if err != nil {
		// the tree does not load (does not compile with the contract files): every ledger obligation is unbound
		rec := &ReplayRecord{Verdict: "no-model", SolverOutput: err.Error()}
		fail(id+"#load", "packages failed to load", rec)
		writeEvidence(evidencePath, id, tier, seed, "other", map[string]any{"explanation": "load failure: " + err.Error(), "obligations": 0, "discharged": 0}, nil, time.Since(t0).Seconds(), 1)
		for _, v := range violations {
			fmt.Println(v)
		}
		return 1
	}
	if err := P.LoadTrusted(); err != nil {
		fmt.Println("trusted contracts failed to load:", err)
		return 2
	}
	loadSecs := time.Since(t0).Seconds()

	// functions under contract for this property
	suffix := "zz_verif_" + strings.ToLower(id) + ".go"
	var funcs []string
	seenFn := map[string]bool{}
	for name, c := range P.Contracts {
		for _, f := range append([]string{c.File}, c.Files...) {
			if filepath.Base(f) == suffix && !seenFn[name] {
				seenFn[name] = true
				funcs = append(funcs, name)
			}
		}
	}
	for _, f := range cfg.Functions {
		if !seenFn[f] {
			seenFn[f] = true
			funcs = append(funcs, f)
		}
	}
	sort.Strings(funcs)

	var ledger []LedgerEntry
	_ = loadJSON(filepath.Join(VerifDir, "ledger", id+".json"), &ledger)
	var kf KnownFindings
	_ = loadJSON(filepath.Join(VerifDir, "known_findings.json"), &kf)

	timeout := 10000
	agree := false
	if tier == "thorough" {
		timeout = 60000
		agree = true
	}
	ecfg := DefaultConfig()
	if cfg.MaxPaths > 0 {
		ecfg.MaxPaths = cfg.MaxPaths
	}
	if cfg.AutoInlineMax > 0 {
		ecfg.AutoInlineMax = cfg.AutoInlineMax
	}
	for _, n := range cfg.Inline {
		ecfg.Inline[n] = true
	}
	for _, n := range cfg.NoInline {
		ecfg.NoInline[n] = true
	}

	reports := make([]*FuncReport, len(funcs))
	var wg sync.WaitGroup
	sem := make(chan struct{}, 4)
	for i, fn := range funcs {
		wg.Add(1)
		go func(i int, fn string) {
			defer wg.Done()
			sem <- struct{}{}
			defer func() { <-sem }()
			reports[i] = RunFunction(P, fn, ecfg, SolveOpts{OutDir: outDir, TimeoutMs: timeout, Agree: agree, Workers: 6})
		}(i, fn)
	}
	wg.Wait()

	// scans (F3/F8)
	var scanResults []*OblResult
	for _, sp := range cfg.Scans {
		scanResults = append(scanResults, RunScan(P, sp)...)
	}

	results := map[string]*OblResult{}
	var all []*OblResult
	trusted := map[string]int{}
	abstracted := map[string]int{}
	inlined := map[string]int{}
	var unsupported []string
	var solveMs, exploreMs int64
	vacuous := []string{}
	for _, r := range reports {
		if r == nil {
			continue
		}
		solveMs += r.SolveMs
		exploreMs += r.ExploreMs
		for k, v := range r.Trusted {
			trusted[k] += v
		}
		for k, v := range r.Abstracted {
			abstracted[r.Func+": "+k] += v
		}
		for k, v := range r.Inlined {
			inlined[k] += v
		}
		for _, u := range r.Unsupported {
			unsupported = append(unsupported, r.Func+": "+u)
		}
		if r.Truncated {
			unsupported = append(unsupported, r.Func+": path budget exhausted")
		}
		for _, o := range r.Results {
			if o.Family == "V" {
				// vacuity guards: a *discharged* V obligation means the assumptions are contradictory
				if o.Status == "discharged" {
					vacuous = append(vacuous, o.Name)
				}
				continue
			}
			if foreignLabel(o.Name, id) {
				continue // clause labelled for another property (shared function)
			}
			results[o.Name] = o
			all = append(all, o)
		}
	}
	for _, o := range scanResults {
		results[o.Name] = o
		all = append(all, o)
	}

	if propose {
		var led []LedgerEntry
		for _, o := range all {
			if o.Status == "discharged" {
				led = append(led, LedgerEntry{Name: o.Name, Family: o.Family, Backend: o.Backend, Ms: o.Millis})
			}
		}
		sort.Slice(led, func(i, j int) bool { return led[i].Name < led[j].Name })
		b, _ := json.MarshalIndent(led, "", " ")
		os.MkdirAll(filepath.Join(VerifDir, "ledger"), 0o755)
		os.WriteFile(filepath.Join(VerifDir, "ledger", id+".json"), b, 0o644)
		fmt.Printf("ledger proposed: %d obligations\n", len(led))
		// and how each local of the functions under contract is defined (rename.go)
		rec := append([]string(nil), funcs...)
		for n := range P.Contracts {
			if _, ok := P.Funcs[n]; ok {
				rec = append(rec, n)
			}
		}
		RecordNames(P, rec)
	}

	isKnown := func(obl string) (string, bool) {
		for _, k := range kf.Open {
			if k.Property == id && k.Obligation == obl {
				return k.Witness, true
			}
		}
		return "", false
	}

	inLedger := map[string]bool{}
	var retired []string
	discharged := 0
	backends := map[string]int{}
	for _, le := range ledger {
		inLedger[le.Name] = true
	}
	replayCache := map[string]*ReplayRecord{}
	doReplay := func(o *OblResult) *ReplayRecord {
		key := o.Func
		if r, ok := replayCache[key+"|"+o.Name]; ok {
			return r
		}
		rec := RunReplayFor(id, o)
		replayCache[key+"|"+o.Name] = rec
		return rec
	}
	// 1. every ledger obligation must be regenerated and discharged
	for _, le := range ledger {
		o, ok := results[le.Name]
		if !ok {
			if w, k := isKnown(le.Name); k {
				known = append(known, fmt.Sprintf("KNOWN-FINDING: property=%s %s: %s", id, le.Name, w))
				continue
			}
			if why := retiredLoopObligation(P, le.Name); why != "" {
				// an auxiliary lemma about a loop that no longer exists: nothing to prove, and what it
				// served (the function's postconditions and guards) is still proved or reported
				retired = append(retired, le.Name+": "+why)
				continue
			}
			rec := &ReplayRecord{Verdict: "no-model", SolverOutput: "obligation was not generated: its contract no longer binds (function or loop missing, or the executor could not reach it)"}
			// try a function-level replay anyway
			fn := le.Name
			if i := strings.Index(fn, "#"); i > 0 {
				fn = fn[:i]
			}
			if r2 := RunReplayFor(id, &OblResult{Name: le.Name, Func: fn, Status: "undecided"}); r2.Verdict == "replayed" {
				rec = r2
			}
			fail(le.Name, "ledger obligation not regenerated", rec)
			continue
		}
		if o.Status == "discharged" {
			discharged++
			backends[o.Backend]++
			continue
		}
		if w, k := isKnown(le.Name); k {
			known = append(known, fmt.Sprintf("KNOWN-FINDING: property=%s %s: %s", id, le.Name, w))
			continue
		}
		rec := doReplay(o)
		fail(le.Name, "ledger obligation "+o.Status, rec)
	}
	// 2. new obligations (not in ledger)
	var undecidedNew []string
	for _, o := range all {
		if inLedger[o.Name] {
			continue
		}
		if o.Status == "discharged" {
			continue
		}
		if w, k := isKnown(o.Name); k {
			known = append(known, fmt.Sprintf("KNOWN-FINDING: property=%s %s: %s", id, o.Name, w))
			continue
		}
		rec := doReplay(o)
		if rec.Verdict == "replayed" {
			fail(o.Name, "new obligation refuted and replayed", rec)
		} else {
			undecidedNew = append(undecidedNew, o.Name+" ("+o.Status+")")
		}
	}
	// 3. vacuity
	for _, v := range vacuous {
		rec := &ReplayRecord{Verdict: "no-model", SolverOutput: "vacuity guard: assumptions of " + v + " are contradictory"}
		fail(v, "vacuity", rec)
	}
	if len(ledger) == 0 && !propose {
		rec := &ReplayRecord{Verdict: "no-model", SolverOutput: "empty ledger"}
		fail(id+"#ledger", "no obligations", rec)
	}

	// 4. bounded stand-ins (never counted as discharged)
	var boundedNotes []string
	for _, b := range cfg.Bounded {
		if b.Tier == "thorough" && tier != "thorough" {
			continue
		}
		ok, out := runOverlayTest(b.Pkg, filepath.Join(VerifDir, "bounded", b.File), b.Run, 600)
		note := fmt.Sprintf("bounded stand-in %s (%s): ", b.Name, b.Bound)
		if ok {
			note += "passed"
		} else {
			note += "FAILED"
			if w, k := isKnown("bounded:" + b.Name); k {
				known = append(known, fmt.Sprintf("KNOWN-FINDING: property=%s bounded:%s: %s", id, b.Name, w))
			} else {
				rec := &ReplayRecord{Verdict: "replayed", TestPkg: b.Pkg, TestFile: filepath.Join(VerifDir, "bounded", b.File), TestOutput: tail(out, 4000), Witness: firstLineWith(out, "BOUNDED-VIOLATION")}
				fail("bounded:"+b.Name, "bounded stand-in failed on the real code", rec)
			}
		}
		boundedNotes = append(boundedNotes, note)
	}

	// evidence
	var samples []any
	for i, o := range all {
		if i >= 12 {
			break
		}
		samples = append(samples, map[string]any{"obligation": o.Name, "status": o.Status, "backend": o.Backend, "paths": o.Paths, "ms": o.Millis, "at": o.Pos})
	}
	var tb []string
	for _, k := range sortedKeys(trusted) {
		tb = append(tb, fmt.Sprintf("%s (x%d)", k, trusted[k]))
	}
	tb = append(tb, "go/ssa construction; z3-new 5.1 / cvc5 1.0 / z3 4.8; gvc executor itself")
	for _, k := range sortedKeys(abstracted) {
		tb = append(tb, "abstracted: "+k)
	}
	level := "proof"
	expl := ""
	if len(violations) > 0 {
		level = "other"
		expl = "violations reported; see replays"
	}
	cov := map[string]any{
		"obligations":              len(ledger),
		"discharged":               discharged,
		"checker_cmd":              fmt.Sprintf("/verif/bin/gvc check %s --tier %s", id, tier),
		"trusted_base":             tb,
		"samples":                  samples,
		"functions_under_contract": funcs,
		"functions_inlined":        sortedKeys(inlined),
		"backends":                 backends,
		"solver_ms":                solveMs,
		"explore_ms":               exploreMs,
		"load_s":                   loadSecs,
		"generated_obligations":    len(all),
		"undecided_new":            undecidedNew,
		"retired_loop_lemmas":      retired,
		"unsupported":              unsupported,
		"known_findings":           known,
		"bounded":                  boundedNotes,
		"not_decided":              cfg.NotDecided,
		"contract_files":           relFiles(P.ContractFiles),
	}
	if expl != "" {
		cov["explanation"] = expl
	}
	if discharged == 0 {
		level = "other"
		cov["explanation"] = "no obligation discharged"
	}
	if tier == "thorough" && os.Getenv("GVC_REPO") == "" && os.Getenv("GVC_OVERLAY") == "" {
		// deeper exploration of the same property: (a) solver agreement and long timeouts (above);
		// (b) every differential harness registered for a function of this property is run on the
		// unchanged tree -- a boundary-value search on the REAL code for a violation of the same
		// contract; (c) the must-fail corpus of the property (pre-fix versions of repaired defects,
		// seeded changes) is replayed on scratch copies: a canary that no longer fires means the
		// check lost strength (reported in the evidence, not as a property violation).
		var index map[string]struct {
			Pkg  string `json:"pkg"`
			File string `json:"file"`
			Run  string `json:"run"`
		}
		harness := []map[string]any{}
		if err := loadJSON(filepath.Join(VerifDir, "replay", "index.json"), &index); err == nil {
			ran := map[string]bool{}
			for _, fnName := range sortedKeys(index) {
				t := index[fnName]
				if !seenFn[fnName] || ran[t.File] {
					continue
				}
				ran[t.File] = true
				ok, out := runOverlayTest(t.Pkg, filepath.Join(VerifDir, "replay", t.File), t.Run, 600)
				h := map[string]any{"harness": t.File, "function": fnName, "passed": ok}
				if !ok && strings.Contains(out, "REPLAY-VIOLATION") {
					rec := &ReplayRecord{Verdict: "replayed", Witness: firstLineWith(out, "REPLAY-VIOLATION"), TestPkg: t.Pkg, TestFile: filepath.Join(VerifDir, "replay", t.File), TestOutput: tail(out, 6000), SolverOutput: "differential harness on the real code"}
					rec.TestCmd = fmt.Sprintf("cd %s && go test -overlay <ov:%s> -vet=off -count=1 -run '%s' ./%s/", RepoDir, t.File, t.Run, t.Pkg)
					fail("harness:"+fnName, "differential harness found a violating input on the real code", rec)
				} else if !ok {
					h["note"] = "harness did not build or run: " + tail(out, 300)
				}
				harness = append(harness, h)
			}
		}
		cov["harnesses"] = harness
		canaries := []map[string]any{}
		p1, _ := filepath.Glob(filepath.Join(VerifDir, "selftest", id, "*.patch"))
		p2, _ := filepath.Glob(filepath.Join(VerifDir, "seeded", id+"-*", "patch.diff"))
		ps := append(p1, p2...)
		sort.Strings(ps)
		if selftestGoCache == "" && len(ps) > 0 {
			c, drop := scratchGoCache()
			selftestGoCache = c
			defer drop()
		}
		for _, pth := range ps {
			res, detail := selftestOne(id, pth)
			canaries = append(canaries, map[string]any{"patch": strings.TrimPrefix(pth, VerifDir+"/"), "result": res, "obligations": detail})
		}
		cov["canaries"] = canaries
	}
	assumptions := append([]string{}, cfg.Assumptions...)
	assumptions = append(assumptions, "machine integers: exact wrap-around semantics; math.Int/LegacyDec: mathematical integers (256-bit cap not modelled)", "trusted contracts and native models listed in coverage.trusted_base", "codecs round-trip; hashes / ABI packing injective (where used)")
	writeEvidence(evidencePath, id, tier, seed, level, cov, assumptions, time.Since(t0).Seconds(), len(violations))

	if verbose || len(violations) > 0 {
		for _, o := range all {
			if o.Status != "discharged" || verbose {
				fmt.Printf("  %-10s %s [%s %dms] %s\n", o.Status, o.Name, o.Backend, o.Millis, o.Pos)
				if o.Backend == "ssa-scan" && o.Status != "discharged" {
					fmt.Printf("             %s\n", o.Output)
				}
			}
		}
		for _, u := range unsupported {
			fmt.Println("  unsupported:", u)
		}
	}
	for _, k := range known {
		fmt.Println(k)
	}
	for _, v := range violations {
		fmt.Println(v)
	}
	if len(retired) > 0 {
		fmt.Printf("%s: %d ledger obligation(s) about loops that no longer exist were retired (lemmas only; see evidence coverage.retired_loop_lemmas)\n", id, len(retired))
	}
	fmt.Printf("%s: ledger=%d discharged=%d generated=%d new-undecided=%d violations=%d known=%d wall=%.1fs\n", id, len(ledger), discharged, len(all), len(undecidedNew), len(violations), len(known), time.Since(t0).Seconds())
	if len(violations) > 0 {
		return 1
	}
	return 0
}

func relFiles(fs []string) []string {
	var out []string
	for _, f := range fs {
		out = append(out, strings.TrimPrefix(f, RepoDir+"/"))
	}
	return out
}

func tail(s string, n int) string {
	if len(s) <= n {
		return s
	}
	return s[len(s)-n:]
}

func firstLineWith(s, pat string) string {
	for _, l := range strings.Split(s, "\n") {
		if strings.Contains(l, pat) {
			return strings.TrimSpace(l)
		}
	}
	return ""
}

func writeEvidence(path, id, tier string, seed int, level string, cov map[string]any, assumptions []string, wall float64, violations int) {
	ev := map[string]any{
		"property_id": id,
		"tier":        tier,
		"seed":        seed,
		"level":       level,
		"coverage":    cov,
		"assumptions": assumptions,
		"wall_s":      wall,
		"violations":  violations,
	}
	if _, ok := cov["explanation"]; !ok && level == "other" {
		cov["explanation"] = "see coverage"
	}
	b, _ := json.MarshalIndent(ev, "", " ")
	os.WriteFile(path, b, 0o644)
}

// ---------- replay ----------

// runOverlayTest runs an in-package test from a file outside the repo through -overlay.
func runOverlayTest(pkg, srcFile, runPat string, timeoutSec int) (bool, string) {
	tmp, err := os.MkdirTemp("", "gvc-ov")
	if err != nil {
		return false, err.Error()
	}
	defer os.RemoveAll(tmp)
	target := filepath.Join(RepoDir, pkg, "zz_verif_replay_test.go")
	repl := map[string]string{target: srcFile}
	if g := os.Getenv("GVC_OVERLAY"); g != "" {
		// a check that runs on patched files (self-test, sweep) tests those very files
		var m map[string]string
		if err := loadJSON(g, &m); err == nil {
			for k, v := range m {
				repl[k] = v
			}
		}
	}
	ov := map[string]any{"Replace": repl}
	b, _ := json.Marshal(ov)
	ovPath := filepath.Join(tmp, "ov.json")
	os.WriteFile(ovPath, b, 0o644)
	cmd := exec.Command("go", "test", "-overlay", ovPath, "-vet=off", "-count=1", "-timeout", fmt.Sprintf("%ds", timeoutSec), "-run", runPat, "./"+pkg+"/")
	cmd.Dir = RepoDir
	cmd.Env = envList()
	out, err := cmd.CombinedOutput()
	return err == nil, string(out)
}

// RunReplayFor tries to reproduce a failed obligation on the real code using the replay template
// registered for its function (/verif/replay/index.json).
func RunReplayFor(id string, o *OblResult) *ReplayRecord {
	rec := &ReplayRecord{Verdict: "no-template", Model: tail(o.Model, 6000), Trace: o.Trace, SMTFile: o.File, SolverOutput: tail(o.Output, 2000)}
	if o.Status == "refuted" {
		rec.SolverOutput = "sat (counterexample model attached)"
	} else if rec.SolverOutput == "" {
		rec.SolverOutput = "solver result: " + o.Status
	}
	var index map[string]struct {
		Pkg  string `json:"pkg"`
		File string `json:"file"`
		Run  string `json:"run"`
		Only string `json:"only,omitempty"` // substring the obligation name must contain
	}
	if err := loadJSON(filepath.Join(VerifDir, "replay", "index.json"), &index); err != nil {
		return rec
	}
	// most specific key first: full obligation name, then function name
	keys := []string{o.Name, o.Func}
	for _, k := range keys {
		t, ok := index[k]
		if !ok {
			continue
		}
		ok2, out := runOverlayTest(t.Pkg, filepath.Join(VerifDir, "replay", t.File), t.Run, 300)
		rec.TestPkg, rec.TestFile = t.Pkg, filepath.Join(VerifDir, "replay", t.File)
		rec.TestCmd = fmt.Sprintf("cd %s && go test -overlay <ov:%s> -vet=off -count=1 -run '%s' ./%s/", RepoDir, t.File, t.Run, t.Pkg)
		rec.TestOutput = tail(out, 6000)
		if !ok2 && strings.Contains(out, "REPLAY-VIOLATION") {
			rec.Verdict = "replayed"
			rec.Witness = firstLineWith(out, "REPLAY-VIOLATION")
		} else {
			rec.Verdict = "not-reproduced"
		}
		return rec
	}
	return rec
}

func CmdReplay(args []string) int {
	if len(args) < 1 {
		fmt.Println("usage: gvc replay <replay.json>")
		return 2
	}
	var rec ReplayRecord
	if err := loadJSON(args[0], &rec); err != nil {
		fmt.Println(err)
		return 2
	}
	fmt.Printf("obligation: %s\nverdict: %s\nreason: %s\n", rec.Obligation, rec.Verdict, rec.Reason)
	if rec.TestFile == "" {
		fmt.Println("no replay test recorded; solver output:\n" + rec.SolverOutput)
		return 1
	}
	// find -run pattern from the recorded command
	run := "TestVerifReplay"
	if i := strings.Index(rec.TestCmd, "-run '"); i >= 0 {
		r := rec.TestCmd[i+6:]
		if j := strings.Index(r, "'"); j > 0 {
			run = r[:j]
		}
	}
	ok, out := runOverlayTest(rec.TestPkg, rec.TestFile, run, 300)
	fmt.Println(out)
	if !ok {
		return 1
	}
	return 0
}

// LoadTrusted loads /verif/trusted/*.gvc and /verif/spec/*.gvc.
func (P *Program) LoadTrusted() error {
	for _, pat := range []string{VerifDir + "/trusted/*.gvc", VerifDir + "/spec/*.gvc"} {
		ms, _ := filepath.Glob(pat)
		sort.Strings(ms)
		if err := P.LoadExtraContracts(ms...); err != nil {
			return err
		}
	}
	return nil
}

// foreignLabel: obligation labels may start with a property id ("C15_tax"); such an obligation
// belongs to that property only. Unprefixed labels belong to every property listing the function.
func foreignLabel(name, id string) bool {
	i := strings.LastIndex(name, "#")
	if i < 0 {
		return false
	}
	rest := name[i+1:]
	for _, part := range strings.Split(rest, ".") {
		// leading property ids: "C01_C15_lock" belongs to C01 and C15
		var owners []string
		for len(part) >= 4 && part[0] == 'C' && part[1] >= '0' && part[1] <= '9' && part[2] >= '0' && part[2] <= '9' && part[3] == '_' {
			owners = append(owners, part[:3])
			part = part[4:]
			// "C03_principal_C17_x": the C03 tag word does not end the list of owners
			part = strings.TrimPrefix(part, "principal_")
		}
		if len(owners) > 0 {
			for _, o := range owners {
				if strings.EqualFold(o, id) {
					return false
				}
			}
			return true
		}
	}
	return false
}


var loopOblRe = regexp.MustCompile(`^(.*)#(?:F1\.loop(\d+)\.(init|preserve)\.|F1\.loop(\d+)\.decreases$|V\.reach\.loop(\d+)\.body$)`)

// retiredLoopObligation: the ledger obligation `name` is the initialisation / preservation of a loop
// invariant (or the reachability cover of the loop body) of a loop that the function no longer has --
// it now has fewer loops than were recorded and this was one of the trailing ones, typically a search
// loop replaced by slices.Contains / IndexFunc -- and the contract says nothing else about that loop
// (no per-iteration postcondition). Invariants are lemmas for the function's postconditions and guards;
// those are separate obligations that are still generated and must still discharge.
func retiredLoopObligation(P *Program, name string) string {
	if os.Getenv("GVC_NO_RENAME") != "" {
		return ""
	}
	m := loopOblRe.FindStringSubmatch(name)
	if m == nil {
		return ""
	}
	fname := m[1]
	ks := m[2] + m[4] + m[5]
	k, err := strconv.Atoi(ks)
	if err != nil {
		return ""
	}
	fn := P.Funcs[fname]
	if fn == nil {
		fn = retargetFunc(P, fname)
	}
	c := P.Contracts[fname]
	if fn == nil || c == nil {
		return ""
	}
	rec, cur := recordedLoops(fname), countLoops(fn)
	if rec <= 0 || cur >= rec || k < cur {
		return ""
	}
	for _, cl := range c.Clauses {
		if cl.Loop == ks && cl.Kind != "invariant" && cl.Kind != "decreases" {
			return ""
		}
	}
	return fmt.Sprintf("loop %d of %d recorded loops is gone (the function has %d now); its invariant was a lemma only", k, rec, cur)
}
