package gvc

import (
	"fmt"
	"os"
	"path/filepath"
	"sort"
	"strings"
	"sync"
	"time"
)

type OblResult struct {
	Name      string   `json:"name"`
	Family    string   `json:"family"`
	Func      string   `json:"function"`
	Paths     int      `json:"paths"`
	Status    string   `json:"status"` // discharged | refuted | undecided
	Backend   string   `json:"backend"`
	Millis    int64    `json:"ms"`
	Pos       string   `json:"pos,omitempty"`
	Model     string   `json:"model,omitempty"`
	Trace     []string `json:"trace,omitempty"`
	File      string   `json:"smt_file,omitempty"`
	Output    string   `json:"solver_output,omitempty"`
	Syntactic int      `json:"syntactic,omitempty"`
}

type FuncReport struct {
	Func        string
	Results     []*OblResult
	Paths       int
	Truncated   bool
	Unsupported []string
	Abstracted  map[string]int
	Inlined     map[string]int
	ByContract  map[string]int
	Trusted     map[string]int
	GuardHits   map[string]int
	ExploreMs   int64
	SolveMs     int64
	Bound       bool // the contract could be bound to a function
}

type SolveOpts struct {
	OutDir    string
	TimeoutMs int
	Agree     bool
	Workers   int
}

// RunFunction explores one function under its contract and discharges its obligations.
func RunFunction(P *Program, name string, cfg *Config, so SolveOpts) *FuncReport {
	rep := &FuncReport{Func: name}
	fn := P.FindFunc(name)
	c := P.Contracts[name]
	moved := false
	if fn != nil && fn.TypeParams().Len() > 0 && len(fn.TypeArgs()) == 0 {
		// a generic function itself (it answers to a recorded name after a rename): checked on its instance
		if inst := retargetFunc(P, name); inst != nil && len(inst.TypeArgs()) > 0 {
			fn = inst
			moved = true
		}
	}
	if fn == nil {
		if fn = retargetFunc(P, name); fn != nil {
			moved = true
		}
	}
	if fn == nil {
		rep.Unsupported = append(rep.Unsupported, "function not found: "+name)
		return rep
	}
	rep.Bound = true
	x := NewExec(P, cfg)
	if moved {
		x.nameOverride = name
		if cn := CanonName(fn); strings.HasPrefix(cn, name+"[") {
			x.nameOverride = cn // the instance the contract of a generic function is checked on
		}
		x.Abstracted["function under contract moved: "+name+" is now "+CanonName(fn)]++
	}
	loadSpecDecls(x, P)
	t0 := time.Now()
	func() {
		defer func() {
			if r := recover(); r != nil {
				x.unsupported("executor panic: %v", r)
				if os.Getenv("GVC_DEBUG") != "" {
					panic(r)
				}
			}
		}()
		x.VerifyFunction(fn, c)
	}()
	rep.ExploreMs = time.Since(t0).Milliseconds()
	rep.Paths = x.paths
	rep.Truncated = x.truncated
	rep.Unsupported = x.Unsupported
	rep.Abstracted, rep.Inlined, rep.ByContract, rep.Trusted, rep.GuardHits = x.Abstracted, x.Inlined, x.ByContract, x.Trusted, x.guardHits
	pre := x.D.Preamble()
	// group by name
	groups := map[string][]*Obligation{}
	var order []string
	for _, o := range x.Obls {
		if _, ok := groups[o.Name]; !ok {
			order = append(order, o.Name)
		}
		groups[o.Name] = append(groups[o.Name], o)
	}
	sort.Strings(order)
	type job struct {
		o   *Obligation
		idx int
	}
	results := map[string]*OblResult{}
	for _, n := range order {
		results[n] = &OblResult{Name: n, Family: groups[n][0].Family, Func: name, Paths: len(groups[n]), Status: "discharged", Pos: groups[n][0].Pos}
	}
	var jobs []job
	for _, n := range order {
		for i, o := range groups[n] {
			if o.Goal.S == "true" {
				results[n].Syntactic++
				continue
			}
			jobs = append(jobs, job{o, i})
		}
	}
	var mu sync.Mutex
	var wg sync.WaitGroup
	ch := make(chan job)
	workers := so.Workers
	if workers <= 0 {
		workers = 12
	}
	t1 := time.Now()
	for w := 0; w < workers; w++ {
		wg.Add(1)
		go func() {
			defer wg.Done()
			for j := range ch {
				fname := fmt.Sprintf("%s__p%d", j.o.Name, j.idx)
				dir := filepath.Join(so.OutDir, mangle(name))
				// stage A: without quantified assumptions (fast; unsat carries over)
				var r SolveResult
				qf, dropped := j.o.ProblemQF(pre, true)
				stageA := SolveResult{Status: "unknown"}
				if dropped {
					ta := so.TimeoutMs / 4
					if ta < 2000 {
						ta = 2000
					}
					stageA = Solve(dir, fname+"__qf", qf, ta, false)
				}
				if j.o.Family == "V" {
					// covers: only the quantifier-free variant (an unsat core without the quantified
					// assumptions is still an unsat core; anything else counts as reachable)
					if dropped {
						r = stageA
					} else {
						r = Solve(dir, fname, j.o.Problem(pre, false), 3000, false)
					}
					if r.Status != "unsat" {
						r.Status = "sat"
					}
				} else if stageA.Status == "unsat" {
					r = stageA
					r.Backend += "/qf"
				} else {
					r = Solve(dir, fname, j.o.Problem(pre, true), so.TimeoutMs, so.Agree)
					r.Millis += stageA.Millis
					if r.Status == "unknown" && stageA.Status == "sat" {
						// candidate counterexample: satisfies everything except possibly the quantified
						// assumptions the solver could not use
						r.Status = "sat"
						r.Backend = stageA.Backend + "/qf-candidate"
						r.Model = "; model of the problem WITHOUT its quantified assumptions (candidate)\n" + stageA.Model
					}
				}
				mu.Lock()
				res := results[j.o.Name]
				res.Millis += r.Millis
				switch r.Status {
				case "unsat":
					if res.Backend == "" {
						res.Backend = r.Backend
					} else if !strings.Contains(res.Backend, r.Backend) {
						res.Backend += "," + r.Backend
					}
				case "sat":
					if res.Status != "refuted" {
						res.Status = "refuted"
						res.Model = r.Model
						res.Trace = j.o.Trace
						res.Pos = j.o.Pos
						res.Backend = r.Backend
						res.File = filepath.Join(so.OutDir, mangle(name), mangle(fname)+".smt2")
					}
				default:
					if res.Status == "discharged" {
						res.Status = "undecided"
						res.Trace = j.o.Trace
						res.Pos = j.o.Pos
						res.Output = r.Output
						res.File = filepath.Join(so.OutDir, mangle(name), mangle(fname)+".smt2")
					}
				}
				mu.Unlock()
			}
		}()
	}
	for _, j := range jobs {
		ch <- j
	}
	close(ch)
	wg.Wait()
	rep.SolveMs = time.Since(t1).Milliseconds()
	oname := name
	if x.nameOverride != "" {
		oname = x.nameOverride
	}
	// F2 (no-panic) sites are aggregated into one obligation per function: site names depend on the
	// shape of the code, the clause "no_panic" does not.
	var agg *OblResult
	for _, n := range order {
		r := results[n]
		if r.Backend == "" && r.Status == "discharged" {
			r.Backend = "syntactic"
		}
		if r.Family == "F2" && npSweep {
			rep.Results = append(rep.Results, r) // audit mode: one line per site
			continue
		}
		if r.Family == "F2" {
			if agg == nil {
				agg = &OblResult{Name: oname + "#F2.no_panic", Family: "F2", Func: oname, Status: "discharged", Backend: r.Backend}
			}
			agg.Paths += r.Paths
			agg.Millis += r.Millis
			agg.Syntactic++ // number of sites
			if r.Backend != "syntactic" && !strings.Contains(agg.Backend, r.Backend) {
				if agg.Backend == "syntactic" {
					agg.Backend = r.Backend
				} else {
					agg.Backend += "," + r.Backend
				}
			}
			if r.Status != "discharged" && agg.Status == "discharged" {
				agg.Status = r.Status
				agg.Model, agg.Trace, agg.Pos, agg.File = r.Model, r.Trace, r.Pos, r.File
				agg.Output = "failing site: " + r.Name + "\n" + r.Output
			}
			continue
		}
		rep.Results = append(rep.Results, r)
	}
	if agg == nil && c != nil && defaultNoPanic != "" {
		// no run-time check of the covered kinds in this function today: the obligation exists all the
		// same, so that one appearing later fails something the ledger knows
		if _, out := c.Flags["may_panic"]; !out {
			if _, tr := c.Flags["trusted"]; !tr {
				agg = &OblResult{Name: oname + "#F2.no_panic", Family: "F2", Func: oname, Status: "discharged", Backend: "syntactic", Paths: 1}
			}
		}
	}
	if agg != nil {
		rep.Results = append(rep.Results, agg)
	}
	return rep
}

// loadSpecDecls installs spec functions / ghost sorts declared in contract files (specfn, ghost).
func loadSpecDecls(x *Exec, P *Program) {
	for _, c := range P.Contracts {
		_ = c
	}
	for name, sf := range P.SpecFuns {
		x.specFuns[name] = sf
		x.D.DeclareFun(sf.smtName, sf.args, sf.res)
	}
	for g, s := range P.GhostSorts {
		x.GhostSorts[g] = s
	}
	for _, a := range P.SpecAxioms {
		x.D.Axiom(a)
	}
}
