package gvc

// gvc mutsweep <Cxx>: a contract-strength audit, not a check. For every function under contract for
// the property it generates small syntactic mutants of the function's real source (relational and
// logical operators, disabled / forced conditions, swapped same-typed arguments, sibling fields and
// same-typed variables in place of one another, deleted calls and field assignments, swallowed
// errors, off-by-one constants), hands each to the ordinary check through a go/packages overlay (the
// repository is not touched) and lists the mutants the contracts do NOT notice. A survivor is either
// an equivalent / irrelevant change (logging, error texts) or a hole in the contracts; triage is
// manual. Results go to /verif/out/mutsweep/<Cxx>.json.

import (
	"encoding/json"
	"flag"
	"fmt"
	"go/ast"
	"go/token"
	"go/types"
	"os"
	"os/exec"
	"path/filepath"
	"regexp"
	"sort"
	"strings"
	"sync"
	"time"

	"golang.org/x/tools/go/packages"
)

type mutant struct {
	ID     int    `json:"id"`
	Func   string `json:"func"`
	File   string `json:"file"`
	Line   int    `json:"line"`
	Op     string `json:"op"`
	Old    string `json:"old"`
	New    string `json:"new"`
	start  int
	end    int
	Result string   `json:"result"` // killed | survived | invalid | error
	By     []string `json:"by,omitempty"`
	Secs   float64  `json:"secs"`
}

var mutNoise = regexp.MustCompile(`(?i)(logger|liblog|\.Logger$|\.(Debug|Info|Warn|Error|Format|Publish|Wrap|Wrapf|WrapS|JoinErrorf)$|Errorf|sdkerrors|EmitTypedEvent|EmitEvents?$|NewEvent|NewAttribute|telemetry|EmitEvent|WithFields|WithError|WithValidator|WithComponent|fmt\.Printf|Println|errors\.New)`)

func CmdMutSweep(args []string) int {
	fs := flag.NewFlagSet("mutsweep", flag.ExitOnError)
	jobs := fs.Int("j", 10, "parallel checks")
	only := fs.String("func", "", "substring filter on function names")
	ops := fs.String("ops", "", "comma separated operator filter (default all)")
	maxPer := fs.Int("max", 0, "at most this many mutants per function (0: all)")
	list := fs.Bool("list", false, "list mutants only")
	if len(args) < 1 {
		fmt.Println("usage: gvc mutsweep <Cxx> [-j N] [-func s] [-ops a,b] [-max n] [-list]")
		return 2
	}
	id := args[0]
	fs.Parse(args[1:])
	var cfg PropConfig
	if err := loadJSON(filepath.Join(VerifDir, "props", id+".json"), &cfg); err != nil {
		fmt.Println("cannot load property config:", err)
		return 2
	}
	ExtraInstances = cfg.Instantiate
	P, err := LoadProgram(cfg.Packages)
	if err != nil {
		fmt.Println(err)
		return 2
	}
	if err := P.LoadTrusted(); err != nil {
		fmt.Println(err)
		return 2
	}
	suffix := "zz_verif_" + strings.ToLower(id) + ".go"
	seenFn := map[string]bool{}
	var funcs []string
	for name, c := range P.Contracts {
		for _, f := range append([]string{c.File}, c.Files...) {
			if filepath.Base(f) == suffix && !seenFn[name] {
				seenFn[name] = true
				funcs = append(funcs, name)
			}
		}
	}
	for _, f := range cfg.Functions {
		if !seenFn[f] {
			seenFn[f] = true
			funcs = append(funcs, f)
		}
	}
	sort.Strings(funcs)
	opOK := func(op string) bool {
		if *ops == "" {
			return true
		}
		for _, o := range strings.Split(*ops, ",") {
			if o == op {
				return true
			}
		}
		return false
	}

	// package of each syntax file
	infoOf := map[string]*packages.Package{}
	var visit func(p *packages.Package)
	seenPkg := map[string]bool{}
	visit = func(p *packages.Package) {
		if seenPkg[p.ID] {
			return
		}
		seenPkg[p.ID] = true
		for _, f := range p.CompiledGoFiles {
			infoOf[f] = p
		}
	}
	for _, p := range P.Pkgs {
		visit(p)
	}

	var muts []*mutant
	seenNode := map[token.Pos]bool{}
	srcCache := map[string][]byte{}
	for _, name := range funcs {
		if *only != "" && !strings.Contains(name, *only) {
			continue
		}
		fn := P.Funcs[name]
		if fn == nil {
			continue
		}
		syn := fn.Syntax()
		if syn == nil && fn.Origin() != nil {
			syn = fn.Origin().Syntax()
		}
		if syn == nil || seenNode[syn.Pos()] {
			continue
		}
		seenNode[syn.Pos()] = true
		file := P.Fset.Position(syn.Pos()).Filename
		pkg := infoOf[file]
		if pkg == nil || pkg.TypesInfo == nil {
			continue
		}
		src, ok := srcCache[file]
		if !ok {
			src, err = os.ReadFile(file)
			if err != nil {
				continue
			}
			srcCache[file] = src
		}
		var body *ast.BlockStmt
		switch n := syn.(type) {
		case *ast.FuncDecl:
			body = n.Body
		case *ast.FuncLit:
			body = n.Body
		}
		if body == nil {
			continue
		}
		ms := genMutants(P.Fset, pkg, src, name, file, body, opOK)
		if *maxPer > 0 && len(ms) > *maxPer {
			ms = ms[:*maxPer]
		}
		muts = append(muts, ms...)
	}
	for i, m := range muts {
		m.ID = i
	}
	fmt.Printf("%s: %d functions under contract, %d mutants\n", id, len(funcs), len(muts))
	if *list {
		for _, m := range muts {
			fmt.Printf("%4d %-8s %s:%d  %q -> %q\n", m.ID, m.Op, strings.TrimPrefix(m.File, RepoDir+"/"), m.Line, m.Old, m.New)
		}
		return 0
	}
	scratch, err := os.MkdirTemp("", "gvc-mutsweep")
	if err != nil {
		fmt.Println(err)
		return 2
	}
	defer os.RemoveAll(scratch)
	self, _ := os.Executable()
	// every mutant recompiles the packages that import the mutated one; those objects must not pile
	// up in the shared build cache: the children get a hard-linked copy of it that is thrown away
	goCache, dropCache := scratchGoCache()
	defer dropCache()
	var wg sync.WaitGroup
	sem := make(chan struct{}, *jobs)
	var mu sync.Mutex
	done := 0
	for _, m := range muts {
		wg.Add(1)
		go func(m *mutant) {
			defer wg.Done()
			sem <- struct{}{}
			defer func() { <-sem }()
			t0 := time.Now()
			dir := filepath.Join(scratch, fmt.Sprint(m.ID))
			os.MkdirAll(dir, 0o755)
			defer os.RemoveAll(dir)
			src := srcCache[m.File]
			mutated := string(src[:m.start]) + m.New + string(src[m.end:])
			rf := filepath.Join(dir, "mutated.go")
			os.WriteFile(rf, []byte(mutated), 0o644)
			ov, _ := json.Marshal(map[string]string{m.File: rf})
			ovf := filepath.Join(dir, "overlay.json")
			os.WriteFile(ovf, ov, 0o644)
			cmd := exec.Command(self, "check", id, "--tier", "quick")
			cmd.Env = append(envList(), "GVC_OVERLAY="+ovf, "GVC_VERIF_OUT="+filepath.Join(dir, "out"))
			if goCache != "" {
				cmd.Env = append(cmd.Env, "GOCACHE="+goCache)
			}
			out, _ := runWithTimeout(cmd, 300*time.Second)
			s := string(out)
			switch {
			case strings.Contains(s, "VIOLATION property="+id):
				m.Result = "killed"
				for _, l := range strings.Split(s, "\n") {
					if strings.HasPrefix(l, "VIOLATION") {
						for _, w := range strings.Fields(l) {
							if strings.HasPrefix(w, "replay=") {
								b := strings.TrimSuffix(filepath.Base(w), ".json")
								if strings.HasSuffix(b, "_load") {
									m.Result = "invalid"
								}
								m.By = append(m.By, b)
							}
						}
					}
				}
			case strings.Contains(s, "violations=0"):
				m.Result = "survived"
			default:
				m.Result = "error"
				m.By = []string{tail(strings.TrimSpace(s), 200)}
			}
			m.Secs = time.Since(t0).Seconds()
			mu.Lock()
			done++
			if done%20 == 0 {
				fmt.Printf("  %d/%d\n", done, len(muts))
			}
			mu.Unlock()
		}(m)
	}
	wg.Wait()
	counts := map[string]int{}
	for _, m := range muts {
		counts[m.Result]++
	}
	fmt.Printf("%s: killed=%d survived=%d invalid=%d error=%d\n", id, counts["killed"], counts["survived"], counts["invalid"], counts["error"])
	for _, m := range muts {
		if m.Result == "survived" || m.Result == "error" {
			fmt.Printf("%-8s %-8s %s:%d %s  %q -> %q\n", strings.ToUpper(m.Result), m.Op, strings.TrimPrefix(m.File, RepoDir+"/"), m.Line, m.Func, m.Old, m.New)
		}
	}
	od := filepath.Join(VerifDir, "out", "mutsweep")
	os.MkdirAll(od, 0o755)
	b, _ := json.MarshalIndent(map[string]any{"property": id, "counts": counts, "mutants": muts}, "", " ")
	os.WriteFile(filepath.Join(od, id+".json"), b, 0o644)
	return 0
}

func runWithTimeout(cmd *exec.Cmd, d time.Duration) ([]byte, error) {
	type res struct {
		b   []byte
		err error
	}
	ch := make(chan res, 1)
	go func() {
		b, err := cmd.CombinedOutput()
		ch <- res{b, err}
	}()
	select {
	case r := <-ch:
		return r.b, r.err
	case <-time.After(d):
		if cmd.Process != nil {
			cmd.Process.Kill()
		}
		return []byte("timeout"), fmt.Errorf("timeout")
	}
}

func genMutants(fset *token.FileSet, pkg *packages.Package, src []byte, fname, file string, body *ast.BlockStmt, opOK func(string) bool) []*mutant {
	info := pkg.TypesInfo
	var out []*mutant
	off := func(p token.Pos) int { return fset.Position(p).Offset }
	text := func(n ast.Node) string { return string(src[off(n.Pos()):off(n.End())]) }
	add := func(op string, start, end token.Pos, repl string) {
		if !opOK(op) {
			return
		}
		s, e := off(start), off(end)
		if s < 0 || e > len(src) || s > e {
			return
		}
		old := string(src[s:e])
		if old == repl {
			return
		}
		o := old
		if len(o) > 70 {
			o = o[:70] + "..."
		}
		r := repl
		if len(r) > 70 {
			r = r[:70] + "..."
		}
		out = append(out, &mutant{Func: fname, File: file, Line: fset.Position(start).Line, Op: op, Old: o, New: repl, start: s, end: e})
		_ = r
	}
	isErr := func(t types.Type) bool {
		return t != nil && types.Identical(t, types.Universe.Lookup("error").Type())
	}
	// assignment targets (no rvalue replacement there)
	lhs := map[ast.Expr]bool{}
	ast.Inspect(body, func(n ast.Node) bool {
		switch n := n.(type) {
		case *ast.AssignStmt:
			for _, l := range n.Lhs {
				lhs[l] = true
			}
		case *ast.IncDecStmt:
			lhs[n.X] = true
		case *ast.UnaryExpr:
			if n.Op == token.AND {
				lhs[n.X] = true
			}
		}
		return true
	})
	skipLit := map[*ast.BasicLit]bool{}
	var walk func(n ast.Node) bool
	walk = func(n ast.Node) bool {
		switch n := n.(type) {
		case *ast.FuncLit:
			return false // closures are functions of their own (swept when under contract)
		case *ast.CallExpr:
			if mutNoise.MatchString(text(n.Fun)) {
				return false
			}
			// swap adjacent arguments of identical type
			for i := 0; i+1 < len(n.Args); i++ {
				a, b := n.Args[i], n.Args[i+1]
				ta, tb := info.TypeOf(a), info.TypeOf(b)
				if ta != nil && tb != nil && types.Identical(ta, tb) && text(a) != text(b) {
					add("ARGSWAP", a.Pos(), b.End(), text(b)+string(src[off(a.End()):off(b.Pos())])+text(a))
				}
			}
		case *ast.ExprStmt:
			if c, ok := n.X.(*ast.CallExpr); ok {
				if mutNoise.MatchString(text(c.Fun)) {
					return false
				}
				add("CALLDEL", n.Pos(), n.End(), "{}")
			}
		case *ast.AssignStmt:
			if n.Tok == token.ASSIGN && len(n.Lhs) == 1 {
				if _, ok := n.Lhs[0].(*ast.SelectorExpr); ok {
					add("ASGDEL", n.Pos(), n.End(), "{}")
				}
				if _, ok := n.Lhs[0].(*ast.IndexExpr); ok {
					add("ASGDEL", n.Pos(), n.End(), "{}")
				}
			}
			if n.Tok == token.ADD_ASSIGN {
				add("ARITH", n.TokPos, n.TokPos+2, "-=")
			}
			if n.Tok == token.SUB_ASSIGN {
				add("ARITH", n.TokPos, n.TokPos+2, "+=")
			}
		case *ast.IfStmt:
			if n.Cond != nil {
				c := text(n.Cond)
				add("CONDF", n.Cond.Pos(), n.Cond.End(), "false && ("+c+")")
				add("CONDT", n.Cond.Pos(), n.Cond.End(), "true || ("+c+")")
			}
		case *ast.ReturnStmt:
			for _, r := range n.Results {
				if bl, ok := r.(*ast.BasicLit); ok {
					skipLit[bl] = true // `return 0, err`: the value beside an error is noise
				}
				if id, ok := r.(*ast.Ident); ok && id.Name != "nil" && isErr(info.TypeOf(r)) {
					add("RETNIL", r.Pos(), r.End(), "nil")
				}
			}
		case *ast.BinaryExpr:
			repl := map[token.Token][]string{
				token.LSS: {"<="}, token.LEQ: {"<"}, token.GTR: {">="}, token.GEQ: {">"},
				token.EQL: {"!="}, token.NEQ: {"=="}, token.LAND: {"||"}, token.LOR: {"&&"},
			}
			if (n.Op == token.EQL || n.Op == token.NEQ) && (text(n.Y) == "nil" && isErr(info.TypeOf(n.X))) {
				return true // err != nil: covered by the disabled / forced condition mutants
			}
			if rs, ok := repl[n.Op]; ok {
				op := "ROR"
				if n.Op == token.LAND || n.Op == token.LOR {
					op = "LOR"
				}
				for _, r := range rs {
					add(op, n.OpPos, n.OpPos+token.Pos(len(n.Op.String())), r)
				}
			}
			if n.Op == token.ADD || n.Op == token.SUB {
				if t, ok := info.TypeOf(n).Underlying().(*types.Basic); ok && t.Info()&types.IsNumeric != 0 {
					r := "-"
					if n.Op == token.SUB {
						r = "+"
					}
					add("ARITH", n.OpPos, n.OpPos+1, r)
				}
			}
		case *ast.BasicLit:
			if skipLit[n] {
				return true
			}
			if n.Kind == token.INT && len(n.Value) < 9 && !strings.HasPrefix(n.Value, "0x") {
				add("CONST", n.Pos(), n.End(), "("+n.Value+" + 1)")
			}
		case *ast.SelectorExpr:
			if lhs[n] {
				return true
			}
			// sibling field of identical type
			if sel, ok := info.Selections[n]; ok && sel.Kind() == types.FieldVal {
				recv := sel.Recv()
				if p, ok := recv.Underlying().(*types.Pointer); ok {
					recv = p.Elem()
				}
				if st, ok := recv.Underlying().(*types.Struct); ok {
					k := 0
					for i := 0; i < st.NumFields() && k < 2; i++ {
						f := st.Field(i)
						if f.Name() == n.Sel.Name || f.Name() == "_" || !types.Identical(f.Type(), sel.Type()) {
							continue
						}
						if !f.Exported() && f.Pkg() != pkg.Types {
							continue
						}
						add("FIELD", n.Sel.Pos(), n.Sel.End(), f.Name())
						k++
					}
				}
			}
		case *ast.Ident:
			if lhs[n] {
				return true
			}
			obj, ok := info.Uses[n].(*types.Var)
			if !ok || obj.IsField() || obj.Pkg() != pkg.Types || obj.Parent() == pkg.Types.Scope() || isErr(obj.Type()) {
				return true
			}
			// another variable of identical type that is in scope here
			inner := pkg.Types.Scope().Innermost(n.Pos())
			k := 0
			seen := map[string]bool{n.Name: true}
			for s := inner; s != nil && s != pkg.Types.Scope() && k < 2; s = s.Parent() {
				names := s.Names()
				for _, nm := range names {
					if k >= 2 {
						break
					}
					o, ok := s.Lookup(nm).(*types.Var)
					if !ok || seen[nm] || nm == "_" || o.Pos() >= n.Pos() || !types.Identical(o.Type(), obj.Type()) {
						continue
					}
					if _, isSig := o.Type().Underlying().(*types.Signature); isSig {
						continue
					}
					seen[nm] = true
					add("VAR", n.Pos(), n.End(), nm)
					k++
				}
			}
		}
		return true
	}
	ast.Inspect(body, walk)
	// keep a stable order: by position, then operator
	sort.SliceStable(out, func(i, j int) bool {
		if out[i].start != out[j].start {
			return out[i].start < out[j].start
		}
		return out[i].Op < out[j].Op
	})
	return out
}

// scratchGoCache clones the go build cache with hard links (no extra space) and returns the clone and
// a function that removes it. Work on mutated or patched copies of the repository compiles many
// packages again and again; written to the shared cache those objects fill the disk (130 GB after a
// day of sweeps). Clones left behind by killed runs are removed first.
func scratchGoCache() (string, func()) {
	out, err := exec.Command("go", "env", "GOCACHE").Output()
	if err != nil {
		return "", func() {}
	}
	src := strings.TrimSpace(string(out))
	if olds, _ := filepath.Glob(filepath.Join(filepath.Dir(src), "go-build-scratch-*")); len(olds) > 0 {
		for _, o := range olds {
			var pid int
			fmt.Sscanf(filepath.Base(o), "go-build-scratch-%d", &pid)
			if pid > 0 {
				if err := exec.Command("kill", "-0", fmt.Sprint(pid)).Run(); err == nil {
					continue // still running
				}
			}
			os.RemoveAll(o)
		}
	}
	dst := filepath.Join(filepath.Dir(src), fmt.Sprintf("go-build-scratch-%d", os.Getpid()))
	if err := exec.Command("cp", "-al", src, dst).Run(); err != nil {
		fmt.Println("warning: could not clone the build cache, the shared one will grow:", err)
		return "", func() {}
	}
	return dst, func() { os.RemoveAll(dst) }
}
