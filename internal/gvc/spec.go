package gvc

// Contract language: lexer, expression parser, contract-file parser.
//
// Contract files are Go files made of `//@` comment lines only (plus build tag
// and package clause). A block starts with `//@ func <FuncRef>` and runs to the
// next `//@ func` line. See DESIGN.md section 2.3 / Appendix E.

import (
	"crypto/sha256"
	"encoding/hex"
	"fmt"
	"os"
	"strings"
	"unicode"
)

func shortHash(s string) string {
	h := sha256.Sum256([]byte(s))
	return hex.EncodeToString(h[:6])
}

// ---------- expression AST ----------

type Expr interface{ exprString() string }

type (
	EInt   struct{ V string }
	EReal  struct{ V string }
	EStr   struct{ V string }
	EBool  struct{ V bool }
	ENil   struct{}
	EIdent struct{ Name string }
	EUnary struct {
		Op string
		X  Expr
	}
	EBinary struct {
		Op   string
		L, R Expr
	}
	ESel struct {
		X    Expr
		Name string
	}
	EIndex struct{ X, I Expr }
	ECall  struct {
		Fun  string
		Recv Expr // non-nil for method-style call x.f(args)
		Args []Expr
	}
	EOld   struct{ X Expr }
	EQuant struct {
		Forall bool
		Var    string
		Sort   string
		Body   Expr
	}
	ELet struct {
		Var  string
		Val  Expr
		Body Expr
	}
	EIte struct{ C, A, B Expr }
)

func (e EInt) exprString() string   { return e.V }
func (e EReal) exprString() string  { return e.V }
func (e EStr) exprString() string   { return fmt.Sprintf("%q", e.V) }
func (e EBool) exprString() string  { return fmt.Sprint(e.V) }
func (e ENil) exprString() string   { return "nil" }
func (e EIdent) exprString() string { return e.Name }
func (e EUnary) exprString() string { return e.Op + e.X.exprString() }
func (e EBinary) exprString() string {
	return "(" + e.L.exprString() + " " + e.Op + " " + e.R.exprString() + ")"
}
func (e ESel) exprString() string   { return e.X.exprString() + "." + e.Name }
func (e EIndex) exprString() string { return e.X.exprString() + "[" + e.I.exprString() + "]" }
func (e ECall) exprString() string {
	var as []string
	for _, a := range e.Args {
		as = append(as, a.exprString())
	}
	p := e.Fun
	if e.Recv != nil {
		p = e.Recv.exprString() + "." + e.Fun
	}
	return p + "(" + strings.Join(as, ", ") + ")"
}
func (e EOld) exprString() string { return "old(" + e.X.exprString() + ")" }
func (e EQuant) exprString() string {
	q := "exists"
	if e.Forall {
		q = "forall"
	}
	return "(" + q + " " + e.Var + " " + e.Sort + " :: " + e.Body.exprString() + ")"
}
func (e ELet) exprString() string {
	return "(let " + e.Var + " = " + e.Val.exprString() + " in " + e.Body.exprString() + ")"
}
func (e EIte) exprString() string {
	return "(if " + e.C.exprString() + " then " + e.A.exprString() + " else " + e.B.exprString() + ")"
}

// ---------- lexer ----------

type stoken struct {
	kind string // int, str, id, op, eof
	text string
}

func lexSpec(s string) ([]stoken, error) {
	var toks []stoken
	i := 0
	for i < len(s) {
		c := s[i]
		switch {
		case c == ' ' || c == '\t' || c == '\n' || c == '\r':
			i++
		case unicode.IsDigit(rune(c)):
			j := i
			for j < len(s) && (unicode.IsDigit(rune(s[j])) || s[j] == '_') {
				j++
			}
			if j+1 < len(s) && s[j] == '.' && unicode.IsDigit(rune(s[j+1])) {
				j++
				for j < len(s) && unicode.IsDigit(rune(s[j])) {
					j++
				}
				toks = append(toks, stoken{"real", s[i:j]})
				i = j
				break
			}
			toks = append(toks, stoken{"int", strings.ReplaceAll(s[i:j], "_", "")})
			i = j
		case unicode.IsLetter(rune(c)) || c == '_':
			j := i
			for j < len(s) && (unicode.IsLetter(rune(s[j])) || unicode.IsDigit(rune(s[j])) || s[j] == '_' || s[j] == '\'') {
				j++
			}
			toks = append(toks, stoken{"id", s[i:j]})
			i = j
		case c == '"':
			j := i + 1
			var b strings.Builder
			for j < len(s) && s[j] != '"' {
				if s[j] == '\\' && j+1 < len(s) {
					j++
					switch s[j] {
					case 'n':
						b.WriteByte('\n')
					case 't':
						b.WriteByte('\t')
					case 'r':
						b.WriteByte('\r')
					default:
						b.WriteByte(s[j])
					}
					j++
					continue
				}
				b.WriteByte(s[j])
				j++
			}
			if j >= len(s) {
				return nil, fmt.Errorf("unterminated string in %q", s)
			}
			toks = append(toks, stoken{"str", b.String()})
			i = j + 1
		default:
			for _, op := range []string{"<==>", "==>", "::", "==", "!=", "<=", ">=", "&&", "||", "(", ")", "[", "]", ".", ",", "+", "-", "*", "/", "%", "<", ">", "!", "=", ":", "#", "$", "{", "}"} {
				if strings.HasPrefix(s[i:], op) {
					toks = append(toks, stoken{"op", op})
					i += len(op)
					goto next
				}
			}
			return nil, fmt.Errorf("unexpected character %q in %q", c, s)
		next:
		}
	}
	toks = append(toks, stoken{"eof", ""})
	return toks, nil
}

// ---------- parser ----------

type specParser struct {
	toks []stoken
	pos  int
	src  string
}

func ParseExpr(src string) (Expr, error) {
	toks, err := lexSpec(src)
	if err != nil {
		return nil, err
	}
	p := &specParser{toks: toks, src: src}
	e, err := p.parseExpr()
	if err != nil {
		return nil, err
	}
	if p.peek().kind != "eof" {
		return nil, fmt.Errorf("trailing input at %q in %q", p.peek().text, src)
	}
	return e, nil
}

func (p *specParser) peek() stoken { return p.toks[p.pos] }
func (p *specParser) next() stoken { t := p.toks[p.pos]; p.pos++; return t }
func (p *specParser) isOp(op string) bool {
	t := p.peek()
	return t.kind == "op" && t.text == op
}
func (p *specParser) isID(id string) bool {
	t := p.peek()
	return t.kind == "id" && t.text == id
}
func (p *specParser) expectOp(op string) error {
	if !p.isOp(op) {
		return fmt.Errorf("expected %q, got %q in %q", op, p.peek().text, p.src)
	}
	p.pos++
	return nil
}

func (p *specParser) parseExpr() (Expr, error) {
	if p.isID("forall") || p.isID("exists") {
		fa := p.next().text == "forall"
		v := p.next()
		if v.kind != "id" {
			return nil, fmt.Errorf("quantifier variable expected in %q", p.src)
		}
		sort := "int"
		if !p.isOp("::") {
			t := p.next()
			sort = t.text
		}
		if err := p.expectOp("::"); err != nil {
			return nil, err
		}
		body, err := p.parseExpr()
		if err != nil {
			return nil, err
		}
		return EQuant{fa, v.text, sort, body}, nil
	}
	if p.isID("let") {
		p.next()
		v := p.next()
		if err := p.expectOp("="); err != nil {
			return nil, err
		}
		val, err := p.parseExpr()
		if err != nil {
			return nil, err
		}
		if !p.isID("in") {
			return nil, fmt.Errorf("expected 'in' in %q", p.src)
		}
		p.next()
		body, err := p.parseExpr()
		if err != nil {
			return nil, err
		}
		return ELet{v.text, val, body}, nil
	}
	if p.isID("if") {
		p.next()
		c, err := p.parseExpr()
		if err != nil {
			return nil, err
		}
		if !p.isID("then") {
			return nil, fmt.Errorf("expected 'then' in %q", p.src)
		}
		p.next()
		a, err := p.parseExpr()
		if err != nil {
			return nil, err
		}
		if !p.isID("else") {
			return nil, fmt.Errorf("expected 'else' in %q", p.src)
		}
		p.next()
		b, err := p.parseExpr()
		if err != nil {
			return nil, err
		}
		return EIte{c, a, b}, nil
	}
	return p.parseIff()
}

func (p *specParser) parseIff() (Expr, error) {
	l, err := p.parseImpl()
	if err != nil {
		return nil, err
	}
	for p.isOp("<==>") {
		p.next()
		r, err := p.parseImpl()
		if err != nil {
			return nil, err
		}
		l = EBinary{"<==>", l, r}
	}
	return l, nil
}

func (p *specParser) parseImpl() (Expr, error) {
	l, err := p.parseOr()
	if err != nil {
		return nil, err
	}
	if p.isOp("==>") {
		p.next()
		var r Expr
		if p.isID("forall") || p.isID("exists") || p.isID("let") || p.isID("if") {
			r, err = p.parseExpr()
		} else {
			r, err = p.parseImpl()
		}
		if err != nil {
			return nil, err
		}
		return EBinary{"==>", l, r}, nil
	}
	return l, nil
}

func (p *specParser) parseOr() (Expr, error) {
	l, err := p.parseAnd()
	if err != nil {
		return nil, err
	}
	for p.isOp("||") {
		p.next()
		r, err := p.parseAnd()
		if err != nil {
			return nil, err
		}
		l = EBinary{"||", l, r}
	}
	return l, nil
}

func (p *specParser) parseAnd() (Expr, error) {
	l, err := p.parseCmp()
	if err != nil {
		return nil, err
	}
	for p.isOp("&&") {
		p.next()
		r, err := p.parseCmp()
		if err != nil {
			return nil, err
		}
		l = EBinary{"&&", l, r}
	}
	return l, nil
}

func (p *specParser) parseCmp() (Expr, error) {
	l, err := p.parseAdd()
	if err != nil {
		return nil, err
	}
	for _, op := range []string{"==", "!=", "<=", ">=", "<", ">"} {
		if p.isOp(op) {
			p.next()
			r, err := p.parseAdd()
			if err != nil {
				return nil, err
			}
			e := Expr(EBinary{op, l, r})
			// chained comparison a <= b < c
			for _, op2 := range []string{"<=", "<", ">=", ">"} {
				if p.isOp(op2) {
					p.next()
					r2, err := p.parseAdd()
					if err != nil {
						return nil, err
					}
					e = EBinary{"&&", e, EBinary{op2, r, r2}}
				}
			}
			return e, nil
		}
	}
	return l, nil
}

func (p *specParser) parseAdd() (Expr, error) {
	l, err := p.parseMul()
	if err != nil {
		return nil, err
	}
	for p.isOp("+") || p.isOp("-") {
		op := p.next().text
		r, err := p.parseMul()
		if err != nil {
			return nil, err
		}
		l = EBinary{op, l, r}
	}
	return l, nil
}

func (p *specParser) parseMul() (Expr, error) {
	l, err := p.parseUnary()
	if err != nil {
		return nil, err
	}
	for p.isOp("*") || p.isOp("/") || p.isOp("%") {
		op := p.next().text
		r, err := p.parseUnary()
		if err != nil {
			return nil, err
		}
		l = EBinary{op, l, r}
	}
	return l, nil
}

func (p *specParser) parseUnary() (Expr, error) {
	if p.isOp("!") || p.isOp("-") {
		op := p.next().text
		x, err := p.parseUnary()
		if err != nil {
			return nil, err
		}
		return EUnary{op, x}, nil
	}
	return p.parsePostfix()
}

func (p *specParser) parsePostfix() (Expr, error) {
	x, err := p.parsePrimary()
	if err != nil {
		return nil, err
	}
	for {
		switch {
		case p.isOp("."):
			p.next()
			id := p.next()
			if id.kind != "id" {
				return nil, fmt.Errorf("field name expected in %q", p.src)
			}
			if p.isOp("(") {
				args, err := p.parseArgs()
				if err != nil {
					return nil, err
				}
				x = ECall{Fun: id.text, Recv: x, Args: args}
			} else {
				x = ESel{x, id.text}
			}
		case p.isOp("["):
			p.next()
			i, err := p.parseExpr()
			if err != nil {
				return nil, err
			}
			if err := p.expectOp("]"); err != nil {
				return nil, err
			}
			x = EIndex{x, i}
		default:
			return x, nil
		}
	}
}

func (p *specParser) parseArgs() ([]Expr, error) {
	if err := p.expectOp("("); err != nil {
		return nil, err
	}
	var args []Expr
	for !p.isOp(")") {
		a, err := p.parseExpr()
		if err != nil {
			return nil, err
		}
		args = append(args, a)
		if p.isOp(",") {
			p.next()
		} else {
			break
		}
	}
	if err := p.expectOp(")"); err != nil {
		return nil, err
	}
	return args, nil
}

func (p *specParser) parsePrimary() (Expr, error) {
	t := p.next()
	switch t.kind {
	case "int":
		return EInt{t.text}, nil
	case "real":
		return EReal{t.text}, nil
	case "str":
		return EStr{t.text}, nil
	case "id":
		switch t.text {
		case "true":
			return EBool{true}, nil
		case "false":
			return EBool{false}, nil
		case "nil":
			return ENil{}, nil
		case "old":
			if err := p.expectOp("("); err != nil {
				return nil, err
			}
			x, err := p.parseExpr()
			if err != nil {
				return nil, err
			}
			if err := p.expectOp(")"); err != nil {
				return nil, err
			}
			return EOld{x}, nil
		}
		if p.isOp("(") {
			args, err := p.parseArgs()
			if err != nil {
				return nil, err
			}
			return ECall{Fun: t.text, Args: args}, nil
		}
		return EIdent{t.text}, nil
	case "op":
		if t.text == "(" {
			e, err := p.parseExpr()
			if err != nil {
				return nil, err
			}
			if err := p.expectOp(")"); err != nil {
				return nil, err
			}
			return e, nil
		}
	}
	return nil, fmt.Errorf("unexpected token %q in %q", t.text, p.src)
}

// ---------- contracts ----------

type Clause struct {
	Kind  string // requires ensures invariant decreases assert_at ...
	Label string // optional [label]
	Text  string // raw source text (hashed for the ledger)
	E     Expr
	Loop  string // for loop clauses: loop reference ("0", "helper#0")
	Args  []string
}

type Contract struct {
	FuncRef string // as written, e.g. "(Keeper).Foo", "Median[uint64]"
	File    string
	Files   []string // every contract file contributing clauses (merged contracts)
	Line    int
	Clauses []Clause
	Flags   map[string]string // no_panic, trusted, atomic_on_error, pure ...
}

func (c *Contract) Of(kind string) []Clause {
	var out []Clause
	for _, cl := range c.Clauses {
		if cl.Kind == kind {
			out = append(out, cl)
		}
	}
	return out
}

func (c *Contract) LoopClauses(ref, kind string) []Clause {
	var out []Clause
	for _, cl := range c.Clauses {
		if cl.Kind == kind && cl.Loop == ref {
			out = append(out, cl)
		}
	}
	return out
}

// ParseContractFile reads //@ lines. Lines not starting with //@ are ignored.
func ParseContractFile(path string) ([]*Contract, error) {
	data, err := os.ReadFile(path)
	if err != nil {
		return nil, err
	}
	return ParseContractText(path, string(data))
}

func ParseContractText(path, text string) ([]*Contract, error) {
	var out []*Contract
	var cur *Contract
	lines := strings.Split(text, "\n")
	for ln := 0; ln < len(lines); ln++ {
		line := strings.TrimSpace(lines[ln])
		if !strings.HasPrefix(line, "//@") {
			continue
		}
		body := strings.TrimSpace(line[3:])
		// continuation lines: "//@   | more"
		for ln+1 < len(lines) {
			nx := strings.TrimSpace(lines[ln+1])
			if strings.HasPrefix(nx, "//@") && strings.HasPrefix(strings.TrimSpace(nx[3:]), "|") {
				body += " " + strings.TrimSpace(strings.TrimSpace(nx[3:])[1:])
				ln++
			} else {
				break
			}
		}
		if i := strings.Index(body, " //"); i >= 0 && !strings.Contains(body[:i], "\"") {
			body = strings.TrimSpace(body[:i])
		}
		if body == "" {
			continue
		}
		word, rest := splitWord(body)
		if word == "func" {
			cur = &Contract{FuncRef: strings.TrimSpace(rest), File: path, Line: ln + 1, Flags: map[string]string{}}
			out = append(out, cur)
			continue
		}
		if cur == nil {
			return nil, fmt.Errorf("%s:%d: clause outside func block", path, ln+1)
		}
		cl := Clause{Kind: word, Text: body}
		switch word {
		case "requires", "ensures", "assert", "assume_entry":
			rest = parseLabel(rest, &cl)
			e, err := ParseExpr(rest)
			if err != nil {
				return nil, fmt.Errorf("%s:%d: %v", path, ln+1, err)
			}
			cl.E = e
		case "loop":
			// loop <ref> invariant|decreases <expr>
			ref, r2 := splitWord(rest)
			kind, r3 := splitWord(r2)
			cl.Loop = ref
			cl.Kind = kind
			if kind == "continues_after" {
				cl.Args = strings.Fields(strings.ReplaceAll(r3, ",", " "))
				cur.Clauses = append(cur.Clauses, cl)
				continue
			}
			r3 = parseLabel(r3, &cl)
			e, err := ParseExpr(r3)
			if err != nil {
				return nil, fmt.Errorf("%s:%d: %v", path, ln+1, err)
			}
			cl.E = e
		case "guard", "guard_if_called":
			// guard [label] <callee-pattern> : <expr>   — F6: every call to callee is reached only under expr
			// (guard_if_called: the same, but the callee need not be called at all -- for "whoever
			// calls this must first …" clauses that today's code satisfies by not calling it)
			rest = parseLabel(rest, &cl)
			i := strings.Index(rest, ":")
			if i < 0 {
				return nil, fmt.Errorf("%s:%d: guard needs ':'", path, ln+1)
			}
			cl.Args = []string{strings.TrimSpace(rest[:i])}
			e, err := ParseExpr(rest[i+1:])
			if err != nil {
				return nil, fmt.Errorf("%s:%d: %v", path, ln+1, err)
			}
			cl.E = e
		default:
			// flag-style clause: no_panic, trusted "why", atomic_on_error, inline, modifies a,b
			cur.Flags[word] = strings.TrimSpace(rest)
			cl.Args = strings.Fields(strings.ReplaceAll(rest, ",", " "))
		}
		cur.Clauses = append(cur.Clauses, cl)
	}
	return out, nil
}

func parseLabel(rest string, cl *Clause) string {
	rest = strings.TrimSpace(rest)
	if strings.HasPrefix(rest, "[") {
		if i := strings.Index(rest, "]"); i > 0 {
			cl.Label = strings.TrimSpace(rest[1:i])
			return strings.TrimSpace(rest[i+1:])
		}
	}
	return rest
}

func splitWord(s string) (string, string) {
	s = strings.TrimSpace(s)
	i := strings.IndexAny(s, " \t")
	if i < 0 {
		return s, ""
	}
	return s[:i], strings.TrimSpace(s[i+1:])
}
