package gvc

// Loading: go/packages (LoadSyntax on the target packages, build tag verif) + go/ssa
// (ssautil.Packages on the targets only, generics instantiated, debug refs on).

import (
	"fmt"
	"go/token"
	"go/types"
	"os"
	"path/filepath"
	"sort"
	"strings"

	"golang.org/x/tools/go/packages"
	"golang.org/x/tools/go/ssa"
	"golang.org/x/tools/go/ssa/ssautil"
)

var RepoDir = repoDir()

func repoDir() string {
	if d := os.Getenv("GVC_REPO"); d != "" {
		return d
	}
	return "/repo"
}

const ModPath = "github.com/palomachain/paloma/v2"

type Program struct {
	Fset          *token.FileSet
	Pkgs          []*packages.Package
	SSA           *ssa.Program
	SSAPkgs       []*ssa.Package
	Funcs         map[string]*ssa.Function // canonical name -> function (incl. methods, closures, instances)
	Contracts     map[string]*Contract     // canonical name -> contract
	ContractFiles []string
	LoadSecs      float64
	SpecFuns      map[string]specFun
	GhostSorts    map[string]string
	SpecAxioms    []string
}

// CanonName gives a stable, short name: "x/skyway/keeper.(Keeper).Foo", "util/palomath.Median[uint64]",
// closures "….Foo$1".
func CanonName(fn *ssa.Function) string {
	if fn == nil {
		return "<nil>"
	}
	if fn.Parent() != nil {
		// anonymous function: name is like "Foo$1"
		root := fn
		for root.Parent() != nil {
			root = root.Parent()
		}
		base := CanonName(root)
		suffix := strings.TrimPrefix(fn.Name(), root.Name())
		return base + suffix
	}
	if old := recordedFuncName(fn); old != "" {
		return old // a function that was renamed since the ledger was recorded (rename.go)
	}
	pkg := ""
	if fn.Pkg != nil {
		pkg = fn.Pkg.Pkg.Path()
	} else if o := fn.Origin(); o != nil && o.Pkg != nil {
		pkg = o.Pkg.Pkg.Path()
	} else if fn.Object() != nil && fn.Object().Pkg() != nil {
		pkg = fn.Object().Pkg().Path()
	}
	pkg = strings.TrimPrefix(pkg, ModPath+"/")
	name := fn.Name()
	if recv := fn.Signature.Recv(); recv != nil {
		name = "(" + recvTypeName(recv.Type()) + ")." + name
	}
	return pkg + "." + name
}

func recvTypeName(t types.Type) string {
	ptr := ""
	if p, ok := t.(*types.Pointer); ok {
		ptr = "*"
		t = p.Elem()
	}
	if n, ok := t.(*types.Named); ok {
		return ptr + n.Obj().Name()
	}
	return ptr + t.String()
}

// ExtraInstances: instantiations of generic types whose methods are to be loaded, as
// "pkg/path.Type[arg, ...]" with predeclared type arguments (set from props/<id>.json `instantiate`
// or the verify -inst flag).
var ExtraInstances []string

func LoadProgram(patterns []string) (*Program, error) {
	cfg := &packages.Config{
		Mode:       packages.LoadSyntax,
		Dir:        RepoDir,
		BuildFlags: []string{"-tags=verif"},
		Env:        append(os.Environ(), "GOFLAGS=-mod=mod", "GOPROXY=off", "GOSUMDB=off", "GOTOOLCHAIN=local"),
		Tests:      false,
	}
	if ov := os.Getenv("GVC_OVERLAY"); ov != "" {
		// mutation sweep: a JSON object {absolute file name: file holding its replacement text}
		var m map[string]string
		if err := loadJSON(ov, &m); err != nil {
			return nil, fmt.Errorf("GVC_OVERLAY: %v", err)
		}
		cfg.Overlay = map[string][]byte{}
		for f, r := range m {
			b, err := os.ReadFile(r)
			if err != nil {
				return nil, fmt.Errorf("GVC_OVERLAY: %v", err)
			}
			cfg.Overlay[f] = b
		}
	}
	pkgs, err := packages.Load(cfg, patterns...)
	if err != nil {
		return nil, err
	}
	var errs []string
	for _, p := range pkgs {
		for _, e := range p.Errors {
			errs = append(errs, e.Error())
		}
	}
	if len(errs) > 0 {
		return nil, fmt.Errorf("package load errors:\n%s", strings.Join(errs, "\n"))
	}
	prog, spkgs := ssautil.Packages(pkgs, ssa.InstantiateGenerics|ssa.GlobalDebug)
	prog.Build()
	P := &Program{Pkgs: pkgs, SSA: prog, SSAPkgs: spkgs, Funcs: map[string]*ssa.Function{}, Contracts: map[string]*Contract{}, SpecFuns: map[string]specFun{}, GhostSorts: map[string]string{}}
	if len(pkgs) > 0 {
		P.Fset = pkgs[0].Fset
	}
	for fn := range ssautil.AllFunctions(prog) {
		if fn.Blocks == nil {
			continue
		}
		P.Funcs[CanonName(fn)] = fn
	}
	// methods of generic types instantiated on request ("pkg/path.Type[int64]"): go/ssa creates
	// such instances only where the program needs them at run time; a contract on a method of a
	// generic type is checked on the instance the application uses
	for _, spec := range ExtraInstances {
		i, j := strings.Index(spec, "["), strings.LastIndex(spec, "]")
		dot := strings.LastIndex(spec[:max(i, 0)], ".")
		if i < 0 || j < i || dot < 0 {
			return nil, fmt.Errorf("bad instance spec %q", spec)
		}
		pkgPath, typeName := spec[:dot], spec[dot+1:i]
		var targs []types.Type
		for _, a := range strings.Split(spec[i+1:j], ",") {
			obj := types.Universe.Lookup(strings.TrimSpace(a))
			if obj == nil {
				return nil, fmt.Errorf("instance spec %q: only predeclared type arguments are supported", spec)
			}
			targs = append(targs, obj.Type())
		}
		for _, sp := range spkgs {
			if sp == nil || (sp.Pkg.Path() != pkgPath && sp.Pkg.Path() != ModPath+"/"+pkgPath) {
				continue
			}
			obj := sp.Pkg.Scope().Lookup(typeName)
			if obj == nil {
				continue
			}
			named, ok := obj.Type().(*types.Named)
			if !ok {
				continue
			}
			inst, err := types.Instantiate(nil, named, targs, false)
			if err != nil {
				return nil, fmt.Errorf("instance spec %q: %v", spec, err)
			}
			for _, t := range []types.Type{inst, types.NewPointer(inst)} {
				ms := prog.MethodSets.MethodSet(t)
				for k := 0; k < ms.Len(); k++ {
					if fn := prog.MethodValue(ms.At(k)); fn != nil && fn.Blocks != nil {
						P.Funcs[CanonName(fn)] = fn
						for _, an := range fn.AnonFuncs {
							P.Funcs[CanonName(an)] = an
						}
					}
				}
			}
		}
	}
	// functions renamed since the ledger was recorded answer to their recorded names from here on
	applyFuncRenames(P)
	// contract files
	for _, p := range pkgs {
		seenDir := map[string]bool{}
		for _, f := range p.GoFiles {
			d := filepath.Dir(f)
			if seenDir[d] {
				continue
			}
			seenDir[d] = true
			matches, _ := filepath.Glob(filepath.Join(d, "zz_verif_*.go"))
			sort.Strings(matches)
			for _, m := range matches {
				cs, err := ParseContractFile(m)
				if err != nil {
					return nil, err
				}
				P.ContractFiles = append(P.ContractFiles, m)
				rel := strings.TrimPrefix(p.PkgPath, ModPath+"/")
				for _, c := range cs {
					c.Files = []string{m}
					key := rel + "." + c.FuncRef
					if prev, ok := P.Contracts[key]; ok {
						// the same function under contract for several properties: one merged contract
						prev.Clauses = append(prev.Clauses, c.Clauses...)
						for k, v := range c.Flags {
							if pv, dup := prev.Flags[k]; !dup {
								prev.Flags[k] = v
							} else if (k == "pure" || k == "inline" || k == "noinline") && pv != v {
								// list-valued flags accumulate
								prev.Flags[k] = pv + ", " + v
							}
						}
						prev.Files = append(prev.Files, m)
						continue
					}
					P.Contracts[key] = c
				}
			}
		}
	}
	// a contract on a generic function is checked on (and applied to) each instance the loaded
	// packages create: go/ssa builds a separate body per instantiation
	for key, c := range P.Contracts {
		fn := P.Funcs[key]
		if fn != nil && (fn.TypeParams().Len() == 0 || len(fn.TypeArgs()) > 0) {
			continue
		}
		found := false
		for name := range P.Funcs {
			if strings.HasPrefix(name, key+"[") && !strings.Contains(name[len(key):], "$") {
				P.Contracts[name] = c
				found = true
			}
		}
		if found {
			delete(P.Contracts, key)
		}
	}
	return P, nil
}

// LoadExtraContracts reads trusted / spec contract files whose FuncRefs are full canonical names.
func (P *Program) LoadExtraContracts(paths ...string) error {
	for _, path := range paths {
		cs, err := ParseContractFile(path)
		if err != nil {
			return err
		}
		for _, c := range cs {
			name := c.FuncRef
			if i := strings.Index(name, " "); i > 0 { // strip renaming header "(a, b) r"
				name = name[:i]
			}
			c.Flags["trusted_file"] = path
			P.Contracts[name] = c
		}
	}
	return nil
}

// FindFunc resolves a canonical name, tolerating generic instance spelling.
func (P *Program) FindFunc(name string) *ssa.Function {
	if f, ok := P.Funcs[name]; ok {
		return f
	}
	return nil
}

func (P *Program) Position(p token.Pos) string {
	if !p.IsValid() || P.Fset == nil {
		return "?"
	}
	pos := P.Fset.Position(p)
	return fmt.Sprintf("%s:%d", strings.TrimPrefix(pos.Filename, RepoDir+"/"), pos.Line)
}
