package gvc

// Solver race: z3-new 5.1, cvc5 1.0, z3 4.8 — every call under a hard timeout.

import (
	"bytes"
	"context"
	"os"
	"os/exec"
	"path/filepath"
	"strings"
	"time"
)

type SolveResult struct {
	Status  string // unsat | sat | unknown
	Backend string
	Model   string
	Output  string
	Millis  int64
}

type solverSpec struct {
	name string
	argv func(file string, timeoutMs int) []string
}

var solvers = []solverSpec{
	{"z3-new", func(f string, t int) []string { return []string{"z3-new", "-T:" + itoa(t/1000+1), "-t:" + itoa(t), f} }},
	{"cvc5", func(f string, t int) []string { return []string{"cvc5", "--tlimit=" + itoa(t), f} }},
	{"z3", func(f string, t int) []string {
		return []string{"/usr/bin/z3", "-T:" + itoa(t/1000+1), "-t:" + itoa(t), f}
	}},
}

func itoa(n int) string {
	if n == 0 {
		return "0"
	}
	neg := n < 0
	if neg {
		n = -n
	}
	var b []byte
	for n > 0 {
		b = append([]byte{byte('0' + n%10)}, b...)
		n /= 10
	}
	if neg {
		b = append([]byte{'-'}, b...)
	}
	return string(b)
}

func runSolver(sp solverSpec, file string, timeoutMs int) SolveResult {
	ctx, cancel := context.WithTimeout(context.Background(), time.Duration(timeoutMs+1500)*time.Millisecond)
	defer cancel()
	argv := sp.argv(file, timeoutMs)
	cmd := exec.CommandContext(ctx, argv[0], argv[1:]...)
	var out bytes.Buffer
	cmd.Stdout = &out
	cmd.Stderr = &out
	t0 := time.Now()
	_ = cmd.Run()
	ms := time.Since(t0).Milliseconds()
	o := out.String()
	first := strings.TrimSpace(strings.SplitN(o, "\n", 2)[0])
	r := SolveResult{Backend: sp.name, Output: o, Millis: ms, Status: "unknown"}
	switch first {
	case "unsat":
		r.Status = "unsat"
	case "sat":
		r.Status = "sat"
		if i := strings.Index(o, "\n"); i >= 0 {
			r.Model = o[i+1:]
		}
	}
	return r
}

// Solve writes the problem to dir/name.smt2 and runs the solvers in order
// (first decisive answer wins). wantModel appends (get-model).
func Solve(dir, name, problem string, timeoutMs int, agree bool) SolveResult {
	_ = os.MkdirAll(dir, 0o755)
	file := filepath.Join(dir, mangle(name)+".smt2")
	if len(file) > 240 {
		file = file[:200] + "_" + shortHash(name) + ".smt2"
	}
	_ = os.WriteFile(file, []byte(problem), 0o644)
	var total int64
	var last SolveResult
	var firstUnsat *SolveResult
	for _, sp := range solvers {
		r := runSolverMaybePortfolio(sp, file, timeoutMs)
		total += r.Millis
		r.Millis = total
		if r.Status == "sat" {
			return r
		}
		if r.Status == "unsat" {
			if !agree {
				return r
			}
			if firstUnsat != nil {
				r.Backend = firstUnsat.Backend + "+" + r.Backend
				return r
			}
			rr := r
			firstUnsat = &rr
			continue
		}
		last = r
	}
	if firstUnsat != nil {
		firstUnsat.Millis = total
		return *firstUnsat
	}
	last.Millis = total
	last.Status = "unknown"
	return last
}

// runSolverMaybePortfolio: z3's answer time on a quantified goal can jump from 0.1 s to 10 s when the
// problem text changes in ways that mean nothing (a renumbered symbol, one redundant fact less): the same
// goal is decided in 0.1 s again under another random seed. The first solver is therefore run as a small
// portfolio: the default seed at once, two more seeds if it has not answered within a second; the first
// decisive answer wins and the others are killed. An answer is an answer whatever the seed (soundness does
// not depend on it); only the waiting is cut.
func runSolverMaybePortfolio(sp solverSpec, file string, timeoutMs int) SolveResult {
	if sp.name != "z3-new" || os.Getenv("GVC_NO_PORTFOLIO") != "" {
		return runSolver(sp, file, timeoutMs)
	}
	type res struct {
		r    SolveResult
		seed int
	}
	ctx, cancel := context.WithCancel(context.Background())
	defer cancel()
	ch := make(chan res, 3)
	t0 := time.Now()
	run := func(seed int) {
		spec := sp
		if seed != 0 {
			spec = solverSpec{sp.name, func(f string, t int) []string {
				return []string{"z3-new", "smt.random_seed=" + itoa(seed), "sat.random_seed=" + itoa(seed), "-T:" + itoa(t/1000+1), "-t:" + itoa(t), f}
			}}
		}
		ch <- res{runSolverCtx(ctx, spec, file, timeoutMs), seed}
	}
	go run(0)
	started, finished := 1, 0
	timer := time.NewTimer(1000 * time.Millisecond)
	defer timer.Stop()
	var last SolveResult
	for finished < started {
		select {
		case r := <-ch:
			finished++
			last = r.r
			if r.r.Status == "unsat" || r.r.Status == "sat" {
				r.r.Millis = time.Since(t0).Milliseconds()
				return r.r
			}
		case <-timer.C:
			if started == 1 {
				go run(1)
				go run(2)
				started = 3
			}
		}
	}
	last.Millis = time.Since(t0).Milliseconds()
	return last
}

func runSolverCtx(parent context.Context, sp solverSpec, file string, timeoutMs int) SolveResult {
	ctx, cancel := context.WithTimeout(parent, time.Duration(timeoutMs+1500)*time.Millisecond)
	defer cancel()
	argv := sp.argv(file, timeoutMs)
	cmd := exec.CommandContext(ctx, argv[0], argv[1:]...)
	var out bytes.Buffer
	cmd.Stdout = &out
	cmd.Stderr = &out
	t0 := time.Now()
	_ = cmd.Run()
	ms := time.Since(t0).Milliseconds()
	o := out.String()
	first := strings.TrimSpace(strings.SplitN(o, "\n", 2)[0])
	r := SolveResult{Backend: sp.name, Output: o, Millis: ms, Status: "unknown"}
	switch first {
	case "unsat":
		r.Status = "unsat"
	case "sat":
		r.Status = "sat"
		if i := strings.Index(o, "\n"); i >= 0 {
			r.Model = o[i+1:]
		}
	}
	return r
}
