package gvc

// Solver race: z3-new 5.1, cvc5 1.0, z3 4.8 — every call under a hard timeout.

import (
	"bytes"
	"context"
	"os"
	"os/exec"
	"path/filepath"
	"strings"
	"time"
)

type SolveResult struct {
	Status  string // unsat | sat | unknown
	Backend string
	Model   string
	Output  string
	Millis  int64
}

type solverSpec struct {
	name string
	argv func(file string, timeoutMs int) []string
}

var solvers = []solverSpec{
	{"z3-new", func(f string, t int) []string { return []string{"z3-new", "-T:" + itoa(t/1000+1), "-t:" + itoa(t), f} }},
	{"cvc5", func(f string, t int) []string { return []string{"cvc5", "--tlimit=" + itoa(t), f} }},
	{"z3", func(f string, t int) []string {
		return []string{"/usr/bin/z3", "-T:" + itoa(t/1000+1), "-t:" + itoa(t), f}
	}},
}

func itoa(n int) string {
	if n == 0 {
		return "0"
	}
	neg := n < 0
	if neg {
		n = -n
	}
	var b []byte
	for n > 0 {
		b = append([]byte{byte('0' + n%10)}, b...)
		n /= 10
	}
	if neg {
		b = append([]byte{'-'}, b...)
	}
	return string(b)
}

func runSolver(sp solverSpec, file string, timeoutMs int) SolveResult {
	ctx, cancel := context.WithTimeout(context.Background(), time.Duration(timeoutMs+1500)*time.Millisecond)
	defer cancel()
	argv := sp.argv(file, timeoutMs)
	cmd := exec.CommandContext(ctx, argv[0], argv[1:]...)
	var out bytes.Buffer
	cmd.Stdout = &out
	cmd.Stderr = &out
	t0 := time.Now()
	_ = cmd.Run()
	ms := time.Since(t0).Milliseconds()
	o := out.String()
	first := strings.TrimSpace(strings.SplitN(o, "\n", 2)[0])
	r := SolveResult{Backend: sp.name, Output: o, Millis: ms, Status: "unknown"}
	switch first {
	case "unsat":
		r.Status = "unsat"
	case "sat":
		r.Status = "sat"
		if i := strings.Index(o, "\n"); i >= 0 {
			r.Model = o[i+1:]
		}
	}
	return r
}

// Solve writes the problem to dir/name.smt2 and runs the solvers in order
// (first decisive answer wins). wantModel appends (get-model).
func Solve(dir, name, problem string, timeoutMs int, agree bool) SolveResult {
	_ = os.MkdirAll(dir, 0o755)
	file := filepath.Join(dir, mangle(name)+".smt2")
	if len(file) > 240 {
		file = file[:200] + "_" + shortHash(name) + ".smt2"
	}
	_ = os.WriteFile(file, []byte(problem), 0o644)
	var total int64
	var last SolveResult
	var firstUnsat *SolveResult
	for _, sp := range solvers {
		r := runSolver(sp, file, timeoutMs)
		total += r.Millis
		r.Millis = total
		if r.Status == "sat" {
			return r
		}
		if r.Status == "unsat" {
			if !agree {
				return r
			}
			if firstUnsat != nil {
				r.Backend = firstUnsat.Backend + "+" + r.Backend
				return r
			}
			rr := r
			firstUnsat = &rr
			continue
		}
		last = r
	}
	if firstUnsat != nil {
		firstUnsat.Millis = total
		return *firstUnsat
	}
	last.Millis = total
	last.Status = "unknown"
	return last
}
