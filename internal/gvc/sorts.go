package gvc

// Mapping of Go types to SMT sorts (DESIGN 2.5).

import (
	"fmt"
	"go/types"
	"math/big"
	"strings"
	"sync"
)

// sort overrides for library types whose representation we do not want to see.
var sortOverride = map[string]string{
	"cosmossdk.io/math.Int":       SMInt,
	"cosmossdk.io/math.LegacyDec": SMInt, // scaled by 10^18 (value = mantissa)
	"cosmossdk.io/math.Uint":      SMInt,
	"*math/big.Int":               SMInt,
	"*math/big.Rat":               "Rat",
}

type structInfo struct {
	sort   string
	typ    *types.Struct
	named  string
	fields []string // field sorts
}

type Sorts struct {
	d          *Decls
	structs    map[string]*structInfo // key: type string
	bySort     map[string]*structInfo
	typeIDs    map[string]int
	opaque     map[string]string
	inProgress map[string]bool
}

func NewSorts(d *Decls) *Sorts {
	s := &Sorts{d: d, structs: map[string]*structInfo{}, bySort: map[string]*structInfo{}, typeIDs: map[string]int{}, opaque: map[string]string{}, inProgress: map[string]bool{}}
	d.DeclareDatatype("Rat", "(declare-datatypes ((Rat 0)) (((mk-rat (rat.nil Bool) (rat.num Int) (rat.den Int)))))")
	return s
}

func (s *Sorts) TypeID(t types.Type) int {
	k := types.TypeString(t, nil)
	if id, ok := s.typeIDs[k]; ok {
		return id
	}
	id := len(s.typeIDs) + 1
	s.typeIDs[k] = id
	return id
}

func typeKey(t types.Type) string { return types.TypeString(t, nil) }

func (s *Sorts) SortOf(t types.Type) string {
	if t == nil {
		return SUnit
	}
	if o, ok := sortOverride[typeKey(t)]; ok {
		return o
	}
	switch u := t.Underlying().(type) {
	case *types.Basic:
		switch {
		case u.Info()&types.IsBoolean != 0:
			return SBool
		case u.Info()&types.IsInteger != 0:
			return SInt
		case u.Info()&types.IsFloat != 0:
			return SReal
		case u.Info()&types.IsString != 0:
			return SStr
		case u.Kind() == types.UnsafePointer:
			return SRef
		case u.Kind() == types.UntypedNil:
			return SRef
		}
		return s.opaqueSort(t)
	case *types.Pointer:
		return SRef
	case *types.Map, *types.Chan:
		return SRef
	case *types.Slice:
		return SSlice
	case *types.Interface:
		return SIface
	case *types.Signature:
		return SFn
	case *types.Array:
		return ArraySort(SInt, s.SortOf(u.Elem()))
	case *types.Struct:
		return s.structSort(t, u)
	case *types.Tuple:
		return SUnit
	case *types.TypeParam:
		return s.opaqueSort(t)
	}
	return s.opaqueSort(t)
}

func (s *Sorts) opaqueSort(t types.Type) string {
	k := typeKey(t)
	if n, ok := s.opaque[k]; ok {
		return n
	}
	n := "Op_" + mangle(k)
	s.opaque[k] = n
	s.d.DeclareSort(n)
	return n
}

func (s *Sorts) structSort(t types.Type, u *types.Struct) string {
	k := typeKey(t)
	if si, ok := s.structs[k]; ok {
		return si.sort
	}
	// a function of the type alone: the same Go type has the same sort name in every executor (the
	// constructor/selector folding table in smt.go is shared) and in every run
	name := "S_" + mangle(shortTypeName(k))
	if len(name) > 60 {
		name = name[:60]
	}
	if !strings.HasPrefix(shortTypeName(k), "anon_") {
		name += "_" + shortHash(k)[:6]
	}
	si := &structInfo{sort: name, typ: u, named: k}
	// reserve the name before visiting the fields (a field of a different type with the same short
	// name, e.g. evm keeper.Keeper inside skyway keeper.Keeper, must not take it)
	s.structs[k] = si
	s.bySort[name] = si
	for i := 0; i < u.NumFields(); i++ {
		si.fields = append(si.fields, s.SortOf(u.Field(i).Type()))
	}
	var b strings.Builder
	fmt.Fprintf(&b, "(declare-datatypes ((%s 0)) (((mk-%s", name, name)
	for i := 0; i < u.NumFields(); i++ {
		fmt.Fprintf(&b, " (%s %s)", s.fieldSel(name, u, i), si.fields[i])
		RegisterSelector(s.fieldSel(name, u, i), "mk-"+name, i)
	}
	b.WriteString("))))")
	s.d.DeclareDatatype(name, b.String())
	return name
}

func (s *Sorts) fieldSel(sortName string, u *types.Struct, i int) string {
	return fmt.Sprintf("%s.%s", sortName, mangle(u.Field(i).Name()))
}

func (s *Sorts) StructInfo(t types.Type) *structInfo {
	u, ok := t.Underlying().(*types.Struct)
	if !ok {
		return nil
	}
	if _, ov := sortOverride[typeKey(t)]; ov {
		return nil
	}
	s.structSort(t, u)
	return s.structs[typeKey(t)]
}

func lastSeg(k string) string {
	if i := strings.LastIndex(k, "/"); i >= 0 {
		return k[i+1:]
	}
	return k
}

func shortTypeName(k string) string {
	k = strings.ReplaceAll(k, ModPath+"/", "")
	if strings.HasPrefix(k, "struct{") {
		return "anon_" + shortHash(k)
	}
	return lastSeg(k)
}

// Zero returns the zero value term of a type.
func (s *Sorts) Zero(t types.Type) Term {
	sort := s.SortOf(t)
	return s.ZeroOfSort(sort, t)
}

func (s *Sorts) ZeroOfSort(sort string, t types.Type) Term {
	switch sort {
	case SInt:
		return IntLit(0)
	case SBool:
		return TFalse
	case SReal:
		return Term{"0.0", SReal}
	case SStr:
		return s.StrLit("")
	case SRef:
		return TNull
	case SSlice:
		return Term{"(mk-slice null 0 0 0)", SSlice}
	case SIface:
		return TINil
	case SMInt:
		return Term{"(mk-mint true 0)", SMInt}
	case "Rat":
		return Term{"(mk-rat true 0 1)", "Rat"}
	case SUnit:
		return Term{"unit", SUnit}
	case SFn:
		s.d.DeclareFun("fnil", nil, SFn)
		return Term{"fnil", SFn}
	}
	if strings.HasPrefix(sort, "(Array ") {
		_, v := splitArraySort(sort)
		var et types.Type
		if t != nil {
			if a, ok := t.Underlying().(*types.Array); ok {
				et = a.Elem()
			}
		}
		z := s.ZeroOfSort(v, et)
		// (cvc5 rejects non-value defaults; z3 accepts them — such files are simply decided by z3)
		return Term{fmt.Sprintf("((as const %s) %s)", sort, z.S), sort}
	}
	if si, ok := s.bySort[sort]; ok {
		args := make([]Term, len(si.fields))
		for i := range si.fields {
			args[i] = s.ZeroOfSort(si.fields[i], si.typ.Field(i).Type())
		}
		return App(sort, "mk-"+sort, args...)
	}
	// opaque
	name := "zero_" + sort
	s.d.DeclareFun(name, nil, sort)
	return Term{name, sort}
}

var strLits = map[string]string{}

func (s *Sorts) StrLit(v string) Term {
	name := "str_" + shortHash(v)
	if !s.d.HasFun(name) {
		s.d.DeclareFun(name, nil, SStr)
		s.d.Axiom(fmt.Sprintf("(= (str.len_ %s) %d)", name, len(v)))
		s.d.Axiom(fmt.Sprintf("(= (str.id %s) %d)", name, s.strID(v)))
	}
	return Term{name, SStr}
}

var strIDs = map[string]int{}
var strMu sync.Mutex

func (s *Sorts) strID(v string) int {
	s.d.DeclareFun("str.id", []string{SStr}, SInt)
	// a function of the literal alone (not of the order in which literals are met), so that the
	// generated SMT text is identical from run to run
	var id int64
	fmt.Sscanf(shortHash(v)[:11], "%x", &id)
	return int(id) + 1
}

// integer type ranges
type intRange struct {
	lo, hi *big.Int // inclusive
	signed bool
	bits   int
}

func rangeOf(t types.Type) *intRange {
	b, ok := t.Underlying().(*types.Basic)
	if !ok || b.Info()&types.IsInteger == 0 {
		return nil
	}
	bits := 64
	signed := b.Info()&types.IsUnsigned == 0
	switch b.Kind() {
	case types.Int8, types.Uint8:
		bits = 8
	case types.Int16, types.Uint16:
		bits = 16
	case types.Int32, types.Uint32:
		bits = 32
	case types.UntypedInt, types.UntypedRune:
		return nil
	}
	one := big.NewInt(1)
	r := &intRange{signed: signed, bits: bits}
	if signed {
		r.lo = new(big.Int).Neg(new(big.Int).Lsh(one, uint(bits-1)))
		r.hi = new(big.Int).Sub(new(big.Int).Lsh(one, uint(bits-1)), one)
	} else {
		r.lo = big.NewInt(0)
		r.hi = new(big.Int).Sub(new(big.Int).Lsh(one, uint(bits)), one)
	}
	return r
}

func (r *intRange) modulus() *big.Int { return new(big.Int).Lsh(big.NewInt(1), uint(r.bits)) }

func bigLit(b *big.Int) Term { return IntLitStr(b.String()) }

func (r *intRange) inRange(x Term) Term {
	return And(App(SBool, "<=", bigLit(r.lo), x), App(SBool, "<=", x, bigLit(r.hi)))
}

// wrap1 wraps a value known to be within one modulus of the range (add/sub of in-range values).
func (r *intRange) wrap1(x Term) Term {
	m := bigLit(r.modulus())
	return Ite(App(SBool, ">", x, bigLit(r.hi)), App(SInt, "-", x, m),
		Ite(App(SBool, "<", x, bigLit(r.lo)), App(SInt, "+", x, m), x))
}

// wrapFull wraps an arbitrary integer into the range.
func (r *intRange) wrapFull(x Term) Term {
	m := bigLit(r.modulus())
	md := App(SInt, "mod", x, m)
	if !r.signed {
		return Ite(r.inRange(x), x, md)
	}
	return Ite(r.inRange(x), x, Ite(App(SBool, ">", md, bigLit(r.hi)), App(SInt, "-", md, m), md))
}

// isSMTValue: literal values (numerals, booleans, null-free datatype constructor applications over
// values) that solvers accept as the default of a constant array.
func isSMTValue(t string) bool {
	if t == "true" || t == "false" || isIntLit(t) || t == "0.0" {
		return true
	}
	if strings.HasPrefix(t, "(- ") {
		return isSMTValue(t[3 : len(t)-1])
	}
	if strings.HasPrefix(t, "((as const ") {
		return true
	}
	if strings.HasPrefix(t, "(mk-") {
		_, args := splitTop(t)
		for _, a := range args {
			if !isSMTValue(a) {
				return false
			}
		}
		return true
	}
	return false
}
