package gvc

import (
	"fmt"
	"go/token"
	"go/types"
	"os"
	"sort"
	"strings"

	"golang.org/x/tools/go/ssa"
)

func (x *Exec) callOperands(st *State, fr *Frame, cc *ssa.CallCommon) (Val, []Val) {
	var args []Val
	fnv := x.val(st, fr, cc.Value)
	for _, a := range cc.Args {
		args = append(args, x.val(st, fr, a))
	}
	return fnv, args
}

// calleeName gives the canonical name used to look up contracts / natives for a call.
func (x *Exec) calleeName(cc *ssa.CallCommon, fnv Val) (string, *ssa.Function) {
	if cc.IsInvoke() {
		recvT := cc.Value.Type()
		return "(" + shortPkgType(recvT) + ")." + cc.Method.Name(), nil
	}
	if f := cc.StaticCallee(); f != nil {
		return CanonName(f), f
	}
	if fnv.Clo != nil {
		return CanonName(fnv.Clo.Fn), fnv.Clo.Fn
	}
	if fnv.Fn != nil {
		return CanonName(fnv.Fn), fnv.Fn
	}
	if b, ok := cc.Value.(*ssa.Builtin); ok {
		return "builtin." + b.Name(), nil
	}
	return "<dynamic>", nil
}

func shortPkgType(t types.Type) string {
	s := typeKey(t)
	return strings.ReplaceAll(s, ModPath+"/", "")
}

// call performs a call. bind receives the result value when the call completes without pushing a
// frame. Returns true when a frame was pushed (the machine continues in the callee).
func (x *Exec) call(st *State, fr *Frame, at ssa.Instruction, cc *ssa.CallCommon, fnv Val, args []Val, bind func(Val)) bool {
	name, target := x.calleeName(cc, fnv)
	st.callCounts["n:"+name]++
	x.noteContinuesAfter(st, fr, name)
	// remember what each callee returned last (spec: lastret("pattern"))
	origBind := bind
	bind = func(v Val) {
		if st.meta == nil {
			st.meta = map[string]Val{}
		}
		st.meta["ret:"+name] = v
		if x.wantsAfter(name) {
			if st.retHeaps == nil {
				st.retHeaps = map[string]map[string]Term{}
			}
			st.retHeaps[name] = copyHeap(st.heap)
		}
		origBind(v)
	}
	if st.meta == nil {
		st.meta = map[string]Val{}
	}
	// ... and what it was handed (spec: lastarg("pattern", k)). Inside a guard on this very callee
	// lastarg speaks about the call BEFORE the one being guarded (argN is the current one).
	if prev, ok := st.meta["args:"+name]; ok {
		st.meta["prevargs:"+name] = prev
	} else {
		delete(st.meta, "prevargs:"+name)
	}
	if cc.IsInvoke() {
		// receiver first, as in the argN numbering of guards
		st.meta["args:"+name] = Val{Tup: append([]Val{fnv}, args...)}
	} else {
		st.meta["args:"+name] = Val{Tup: append([]Val(nil), args...)}
	}

	// interface invoke with statically known dynamic type -> concrete method
	if cc.IsInvoke() && fnv.Dyn != nil && fnv.Dyn.Typ != nil {
		if m := x.P.SSA.LookupMethod(fnv.Dyn.Typ, cc.Method.Pkg(), cc.Method.Name()); m != nil {
			target = m
			name = CanonName(m)
			args = append([]Val{*fnv.Dyn}, args...)
			return x.callFunction(st, fr, at, name, target, nil, args, bind, cc)
		}
	}
	if cc.IsInvoke() {
		allArgs := append([]Val{fnv}, args...)
		if v, ok := x.callPure(st, name, allArgs, cc.Signature().Results()); ok {
			x.checkGuards(st, fr, at, name, allArgs)
			bind(v)
			return false
		}
		return x.callAbstract(st, fr, at, name, nil, allArgs, cc.Signature().Results(), bind, cc)
	}
	if b, ok := cc.Value.(*ssa.Builtin); ok {
		if b.Name() == "append" || b.Name() == "delete" || b.Name() == "copy" {
			x.checkGuards(st, fr, at, "builtin."+b.Name(), args)
		}
		bind(x.builtin(st, fr, at, b, args, cc))
		return false
	}
	if fnv.Commit != nil {
		st.callCounts["n:<commit>"]++
		x.checkGuards(st, fr, at, "<commit>", args)
		from, to := fnv.Commit[0], fnv.Commit[1]
		st.worlds[to] = st.worlds[from].clone()
		st.note("commit: world %d := world %d", to, from)
		bind(Val{T: Term{"unit", SUnit}})
		return false
	}
	if target == nil {
		// dynamic function value: calling a nil func panics
		if fnv.T.Sort == SFn && !cc.IsInvoke() {
			x.D.DeclareFun("fnil", nil, SFn)
			x.safety(st, fr, at, "nilcall", Not(Eq(fnv.T, Term{"fnil", SFn})))
		}
		x.Abstracted["call through unknown function value"]++
		return x.callAbstract(st, fr, at, "<dynamic>", nil, args, cc.Signature().Results(), bind, cc)
	}
	var bindings []Val
	if fnv.Clo != nil {
		bindings = fnv.Clo.Bindings
	}
	return x.callFunction(st, fr, at, name, target, bindings, args, bind, cc)
}

func (x *Exec) callFunction(st *State, fr *Frame, at ssa.Instruction, name string, fn *ssa.Function, bindings []Val, args []Val, bind func(Val), cc *ssa.CallCommon) bool {
	// guards (F6) of the function under contract
	x.checkGuards(st, fr, at, name, args)
	if len(args) == 1 && os.Getenv("GVC_NO_GETTERS") == "" {
		if v, ok := x.getterValueSt(st, st.heap, fn, args[0]); ok {
			x.Trusted["generated getter read as its field: "+name]++
			x.assumeTyped(st, v)
			bind(v)
			return false
		}
	}
	if v, ok := x.callPure(st, name, args, fn.Signature.Results()); ok {
		bind(v)
		return false
	}
	// 1. native model
	if nat, ok := natives[name]; ok {
		if v, handled := nat(x, st, fr, at, args); handled {
			x.Trusted["native:"+name]++
			bind(v)
			return false
		}
	}
	if nat := nativeByPattern(name); nat != nil {
		if v, handled := nat(x, st, fr, at, args); handled {
			x.Trusted["native:"+name]++
			bind(v)
			return false
		}
	}
	// 2. contract
	if c, ok := x.contractOf(name); ok && fn != x.Top {
		_, forceInline := c.Flags["inline"]
		if !forceInline {
			if os.Getenv("GVC_TRACE_CLO") != "" {
				fmt.Fprintf(os.Stderr, "contract call %s bindings=%d freevars=%d\n", name, len(bindings), len(fn.FreeVars))
			}
			x.siteBindings = bindings
			v := x.applyContract(st, fr, at, name, c, fn.Signature, fn, args)
			x.siteBindings = nil
			bind(v)
			return false
		}
	}
	// 3. inline
	if x.shouldInline(st, name, fn) {
		nf := &Frame{fn: fn, env: map[ssa.Value]Val{}, names: map[string]nameBinding{}, loopEntry: map[int]*loopSnap{}, callInstr: at, contract: x.P.Contracts[name]}
		for i, p := range fn.Params {
			if i < len(args) {
				a := x.coerce(st, args[i], p.Type())
				a.Typ = p.Type()
				nf.env[p] = a
				nf.names[p.Name()] = nameBinding{v: a}
				nf.params = append(nf.params, a)
			}
		}
		for i, fv := range fn.FreeVars {
			if i < len(bindings) {
				nf.env[fv] = bindings[i]
				nf.names[fv.Name()] = nameBinding{v: bindings[i], isAddr: true}
			}
		}
		nf.freevars = bindings
		nf.block = fn.Blocks[0]
		nf.entryHeap = st.heap
		st.frames = append(st.frames, nf)
		return true
	}
	// 4. abstract
	return x.callAbstract(st, fr, at, name, fn, args, fn.Signature.Results(), bind, cc)
}

func (x *Exec) shouldInline(st *State, name string, fn *ssa.Function) bool {
	if fn == nil || fn.Blocks == nil {
		return false
	}
	if x.Cfg.NoInline[name] {
		return false
	}
	if len(st.frames) >= x.Cfg.MaxInlineDepth {
		return false
	}
	for _, f := range st.frames {
		if f.fn == fn {
			return false // recursion
		}
	}
	if x.Cfg.Inline[name] {
		return true
	}
	if _, has := x.contractOf(name); !has && isNewHelper(name, fn) {
		x.Abstracted["helper that did not exist when the ledger was recorded, inlined: "+name]++
		return true
	}
	// policy given by the contract of the function under verification
	if x.TopC != nil {
		for _, pat := range flagList(x.TopC, "noinline") {
			if matchCallee(pat, name) {
				return false
			}
		}
		for _, pat := range flagList(x.TopC, "inline") {
			if matchCallee(pat, name) {
				return true
			}
		}
	}
	if fn.Parent() != nil {
		return true // closures are always inlined
	}
	n := 0
	for _, b := range fn.Blocks {
		n += len(b.Instrs)
	}
	max := x.Cfg.AutoInlineMax
	if x.TopC != nil {
		if v, ok := x.TopC.Flags["auto_inline"]; ok {
			fmt.Sscan(v, &max)
		}
	}
	return n <= max
}

// flagList returns the comma/space separated arguments of every flag clause of that kind.
func flagList(c *Contract, kind string) []string {
	var out []string
	for _, cl := range c.Clauses {
		if cl.Kind == kind {
			out = append(out, cl.Args...)
		}
	}
	return out
}

// ---------- effects of abstract calls ----------

// readOnly name fragments for methods that only read the world.
var readOnlyPrefixes = []string{"Get", "Has", "Is", "Iterate", "Validator", "Find", "Load", "Query", "Bonded", "Params", "Supported", "Last", "Total", "Keeper", "Logger", "String", "Bytes", "Equal", "Compare", "Len", "Empty", "Type", "Route", "Validate", "Marshal", "Unmarshal", "MustMarshal", "MustUnmarshal", "Unpack", "Err", "Unwrap", "Block", "Chain", "Event", "KVStore", "Header", "With", "Value", "Deadline", "Done", "Amount", "Denom", "Allowance", "Spendable", "Locked", "Module", "Can", "Should", "Lookup", "Exists", "Contains", "Verify", "Recover", "Hash", "Sign", "Key", "Iterator", "ReverseIterator", "Valid", "Next", "Close", "Domain", "Error", "Now", "Peek", "Check", "Must", "Build", "New", "Convert", "Parse", "Decode", "Encode", "Sum", "Interface", "Codec", "Pick", "Debug", "Info", "Warn", "Hex", "Cmp", "Sub", "Add", "Mul", "Quo", "Tokens", "Operator", "Cons"}

// store accessors: obtaining a store handle from a context writes nothing
var readOnlyExact = map[string]bool{"Store": true, "OpenKVStore": true, "OpenMemoryStore": true, "OpenTransientStore": true}

func looksReadOnly(method string) bool {
	if readOnlyExact[method] {
		return true
	}
	for _, p := range readOnlyPrefixes {
		if strings.HasPrefix(method, p) {
			return true
		}
	}
	return false
}

func methodOf(name string) string {
	if i := strings.LastIndex(name, "."); i >= 0 {
		return name[i+1:]
	}
	return name
}

const (
	effUnknown = iota
	effPure
	effWrites
)

// writesWorld: does fn (transitively, over static callees with bodies and by name heuristics for the
// rest) contain something that may write a world (store Set/Delete, keeper mutators)?
func (x *Exec) writesWorld(fn *ssa.Function, depth int) bool {
	if fn == nil {
		return true
	}
	if e, ok := x.effCache[fn]; ok {
		return e == effWrites
	}
	if fn.Blocks == nil {
		w := !looksReadOnly(fn.Name())
		if w {
			x.effCache[fn] = effWrites
		} else {
			x.effCache[fn] = effPure
		}
		return w
	}
	x.effCache[fn] = effPure // provisional (cycles)
	res := false
	if depth > 12 {
		res = true
	}
outer:
	for _, b := range fn.Blocks {
		for _, in := range b.Instrs {
			var cc *ssa.CallCommon
			switch c := in.(type) {
			case *ssa.Call:
				cc = c.Common()
			case *ssa.Defer:
				cc = c.Common()
			case *ssa.Go:
				cc = c.Common()
			case *ssa.MakeClosure:
				if x.writesWorld(c.Fn.(*ssa.Function), depth+1) {
					res = true
					break outer
				}
			}
			if cc == nil {
				continue
			}
			if cc.IsInvoke() {
				if !looksReadOnly(cc.Method.Name()) && ifaceTouchesWorld(cc) {
					res = true
					break outer
				}
				continue
			}
			if callee := cc.StaticCallee(); callee != nil {
				if isEffectFreePkg(callee) {
					continue
				}
				cn := CanonName(callee)
				c, ok := x.P.Contracts[cn]
				if !ok {
					if i := strings.Index(cn, "["); i > 0 {
						c, ok = x.P.Contracts[cn[:i]]
					}
				}
				if ok {
					if _, ro := c.Flags["reads_only"]; ro {
						continue
					}
					if _, ro := c.Flags["world_unchanged"]; ro {
						continue // proved (F3) or trusted not to write
					}
				}
				if x.writesWorld(callee, depth+1) {
					res = true
					break outer
				}
				continue
			}
			if _, ok := cc.Value.(*ssa.Builtin); ok {
				continue
			}
			// dynamic call: parameters / fields of func type. Conservative only if a context flows in.
			for _, a := range cc.Args {
				if isContextType(a.Type()) {
					res = true
					break outer
				}
			}
		}
	}
	if res {
		x.effCache[fn] = effWrites
	} else {
		x.effCache[fn] = effPure
	}
	return res
}

func ifaceTouchesWorld(cc *ssa.CallCommon) bool {
	// any interface method that is not read-only by name is assumed to write if it takes a context or
	// is a store/keeper-like receiver.
	for _, a := range cc.Args {
		if isContextType(a.Type()) {
			return true
		}
	}
	rt := typeKey(cc.Value.Type())
	return strings.Contains(rt, "KVStore") || strings.Contains(rt, "Store") || strings.Contains(rt, "Keeper") || strings.Contains(rt, "EventManager") == false && strings.Contains(rt, "Queuer")
}

var effectFreePkgs = []string{"fmt", "strings", "bytes", "strconv", "errors", "sort", "slices", "math", "math/big", "encoding/hex", "encoding/json", "encoding/binary", "time", "unicode", "regexp", "crypto/", "cosmossdk.io/math", "cosmossdk.io/errors", "github.com/ethereum/go-ethereum", "golang.org/x/", "github.com/VolumeFi/whoops", "github.com/cosmos/gogoproto", "google.golang.org/protobuf", "github.com/palomachain/paloma/v2/util/liblog", "github.com/palomachain/paloma/v2/util/liberr", "github.com/cometbft/cometbft/crypto", "github.com/cosmos/cosmos-sdk/telemetry", "github.com/hashicorp/go-metrics", "reflect", "sync", "os", "log", "io", "context", "maps", "cmp", "hash", "unicode/utf8", "github.com/cosmos/cosmos-sdk/types/errors", "github.com/cosmos/cosmos-sdk/codec"}

func isEffectFreePkg(fn *ssa.Function) bool {
	var path string
	if fn.Pkg != nil {
		path = fn.Pkg.Pkg.Path()
	} else if fn.Object() != nil && fn.Object().Pkg() != nil {
		path = fn.Object().Pkg().Path()
	} else if o := fn.Origin(); o != nil && o.Pkg != nil {
		path = o.Pkg.Pkg.Path()
	}
	for _, p := range effectFreePkgs {
		if path == p || strings.HasPrefix(path, p) {
			return true
		}
	}
	return false
}

// callAbstract havocs per the effect classification and returns fresh results.
func (x *Exec) callAbstract(st *State, fr *Frame, at ssa.Instruction, name string, fn *ssa.Function, args []Val, results *types.Tuple, bind func(Val), cc *ssa.CallCommon) bool {
	if fn == nil {
		x.checkGuards(st, fr, at, name, args)
	}
	// interface-method natives and contracts
	if nat, ok := natives[name]; ok {
		if v, handled := nat(x, st, fr, at, args); handled {
			x.Trusted["native:"+name]++
			bind(v)
			return false
		}
	}
	if nat := nativeByPattern(name); nat != nil {
		if v, handled := nat(x, st, fr, at, args); handled {
			x.Trusted["native:"+name]++
			bind(v)
			return false
		}
	}
	if c, ok := x.contractOf(name); ok {
		var sig *types.Signature
		if cc != nil {
			sig = cc.Signature()
		}
		v := x.applyContract(st, fr, at, name, c, sig, fn, args)
		bind(v)
		return false
	}
	if isDropped(name) {
		bind(x.resultVal(st, name, results))
		return false
	}
	writes := true
	pureHeap := false
	if fn != nil {
		if isEffectFreePkg(fn) {
			writes = false
			pureHeap = pureArgsPkg(fn)
		} else {
			writes = x.writesWorld(fn, 0)
		}
		if _, ok := getterFieldNoBody(fn); ok && len(fn.Blocks) == 0 {
			// a generated getter of a package loaded without bodies: it reads one field and writes nothing
			writes, pureHeap = false, true
		}
	} else if cc != nil && cc.IsInvoke() {
		writes = !looksReadOnly(cc.Method.Name())
		pureHeap = looksReadOnly(cc.Method.Name()) && !writesThroughArgs(cc.Method.Name())
	}
	touchedWorlds := map[int]bool{}
	for _, a := range args {
		if a.World > 0 {
			touchedWorlds[a.World-1] = true
		}
	}
	if writes {
		if len(touchedWorlds) == 0 && x.mayReachWorld(fn, cc) {
			touchedWorlds[0] = true
		}
		for w := 0; w < len(st.worlds); w++ {
			if touchedWorlds[w] {
				old := st.worlds[w]
				x.D.DeclareFun("eff", []string{SStr, SWorld, SInt}, SWorld)
				st.nEvents++
				nw := x.freshWorld(fmt.Sprintf("W%d", w))
				// the new version is an (unknown) function of the old one: never provably equal to it
				st.assume(Eq(nw.Ver, App(SWorld, "eff", x.S.StrLit(name), old.Ver, x.D.Fresh("effarg", SInt))))
				st.worlds[w] = nw
				st.note("world %d written by abstract call %s", w, name)
			}
		}
	}
	// a closure handed to an abstract callee may be run any number of times: forget the variables it
	// captures by reference
	for _, a := range args {
		if a.Clo != nil {
			for _, b := range a.Clo.Bindings {
				if b.T.Sort == SRef && b.Typ != nil {
					if _, ok := b.Typ.Underlying().(*types.Pointer); ok {
						x.havocObject(st, b)
					}
				}
			}
		}
	}
	if !pureHeap {
		for _, a := range args {
			if a.Typ == nil {
				continue
			}
			if _, ok := a.Typ.Underlying().(*types.Pointer); ok && a.T.Sort == SRef {
				x.havocObject(st, a)
			}
			// a pointer handed over inside an interface value (UnpackAny(any, &m), Unmarshal(bz, ptr))
			if a.T.Sort == SIface && a.Dyn != nil && a.Dyn.Typ != nil && a.Dyn.T.Sort == SRef {
				if _, ok := a.Dyn.Typ.Underlying().(*types.Pointer); ok {
					x.havocObject(st, *a.Dyn)
				}
			}
		}
	}
	key := "abstract:" + name
	if writes && len(touchedWorlds) > 0 {
		key += " [writes world]"
	}
	x.Abstracted[key]++
	rv := x.resultVal(st, name, results)
	// store values inherit the world of the context / store they were derived from
	w := 0
	for _, a := range args {
		if a.World > 0 {
			w = a.World
			break
		}
	}
	if w > 0 {
		if rv.Tup != nil {
			for i := range rv.Tup {
				if isStoreType(rv.Tup[i].Typ) || isContextType(rv.Tup[i].Typ) {
					rv.Tup[i].World = w
				}
			}
		} else if isStoreType(rv.Typ) || isContextType(rv.Typ) {
			rv.World = w
		}
	}
	bind(rv)
	return false
}

func pureArgsPkg(fn *ssa.Function) bool {
	// library functions that never mutate through their pointer arguments, except decoders
	return !writesThroughArgs(fn.Name())
}

// writesThroughArgs: decoders and similar functions whose purpose is to fill the object a pointer
// argument refers to, even though they do not write any world.
func writesThroughArgs(n string) bool {
	for _, p := range []string{"Unmarshal", "Unpack", "Decode", "Scan", "Read", "Sort", "Set", "Fill"} {
		if strings.Contains(n, p) {
			return true
		}
	}
	return false
}

func (x *Exec) mayReachWorld(fn *ssa.Function, cc *ssa.CallCommon) bool {
	// Stores are only reachable through a context (SDK 0.50: every keeper method takes one) or
	// through a store value obtained from a context, and both carry their world index. A callee that
	// receives neither cannot write a world.
	return false
}

// isStoreType: values through which a world can be written later (inherit the world of the
// context they were obtained from).
func isStoreType(t types.Type) bool {
	if t == nil {
		return false
	}
	s := typeKey(t)
	return strings.Contains(s, "KVStore") || strings.Contains(s, "store/prefix.Store") || strings.Contains(s, "store/types.Iterator") || strings.Contains(s, "core/store.Iterator")
}

func (x *Exec) resultVal(st *State, name string, results *types.Tuple) Val {
	if results == nil || results.Len() == 0 {
		return Val{T: Term{"unit", SUnit}}
	}
	var v Val
	if results.Len() == 1 {
		v = x.freshVal(st, "r."+methodOf(name), results.At(0).Type())
		x.foreignRef(st, v)
	} else {
		v = x.freshVal(st, "r."+methodOf(name), results)
		for _, c := range v.Tup {
			x.foreignRef(st, c)
		}
	}
	x.sawRef(st, v)
	return v
}

// foreignRef: a reference handed back by a callee is either an object that existed before this
// function started (rid <= 0) or one the callee allocated (rid in a range disjoint from this
// function's own allocations) — never one of this function's own objects that did not escape.
func (x *Exec) foreignRef(st *State, v Val) {
	var r Term
	switch v.T.Sort {
	case SRef:
		r = v.T
	case SSlice:
		r = App(SRef, "s.base", v.T)
	default:
		return
	}
	id := App(SInt, "rid", r)
	st.assume(Or(App(SBool, "<=", id, IntLit(0)), App(SBool, ">=", id, IntLit(1000000))))
}

// calls that are dropped entirely (DESIGN 2.6): logging, telemetry, event emission.
func isDropped(name string) bool {
	for _, p := range []string{"util/liblog.", "liblog.Logr)", "telemetry.", "go-metrics", "(log.Logger)", "cosmossdk.io/log.Logger)", "EventManager)", "EventManagerI)", "(*github.com/cosmos/cosmos-sdk/types.EventManager)"} {
		if strings.Contains(name, p) {
			return true
		}
	}
	return false
}

// ---------- guards (F6) ----------

// checkGuards emits, for each `guard <pattern>: expr` clause of the function under contract, an
// obligation that the call is only reached when expr holds.
func (x *Exec) checkGuards(st *State, fr *Frame, at ssa.Instruction, callee string, args []Val) {
	if x.TopC == nil {
		return
	}
	for _, cl := range append(x.TopC.Of("guard"), x.TopC.Of("guard_if_called")...) {
		pat := cl.Args[0]
		if i := strings.LastIndex(pat, "#"); i > 0 {
			// "callee#k": only the k-th call site (source order) of that callee in the calling function
			var k int
			if _, err := fmt.Sscan(pat[i+1:], &k); err != nil || !matchCallee(pat[:i], callee) {
				continue
			}
			if vo, ok := x.virtualOrdinal(st, fr, at, pat[:i]); ok {
				// the call sits in the function under contract or in a helper extracted from it after
				// the ledger was recorded: sites are counted as if the helper's body were still in place
				if vo != k {
					continue
				}
			} else {
				if x.siteOrdinal(fr.fn, at, pat[:i]) != k {
					continue
				}
				if os.Getenv("GVC_ORDINAL_ANY_FRAME") == "" && fr != st.frames[0] && fr.fn != x.Top {
					// ordinals count the call sites of the function under contract itself; a site of
					// the same ordinal inside an inlined callee is a different call
					continue
				}
			}
		} else if !matchCallee(pat, callee) {
			continue
		}
		top := st.frames[0]
		sc := x.scopeFor(st, top)
		sc.guardCallee = callee
		// also let the guard see the names of the frame where the call happens
		if fr != top {
			for n, b := range fr.names {
				if _, ok := sc.vars[n]; !ok {
					if v, ok := x.bindingVal(st, b); ok {
						sc.extra[n] = v
					}
				}
			}
		}
		for i, a := range args {
			sc.vars[fmt.Sprintf("arg%d", i)] = a
		}
		// argN is the parameter that was N-th when the ledger was recorded: parameters that were swapped
		// (or one that was added) since do not change what a guard says (rename.go)
		if ci, ok := at.(ssa.CallInstruction); ok {
			if cf := ci.Common().StaticCallee(); cf != nil && len(cf.Params) == len(args) {
				for i := range args {
					if j := recordedParamIndex(callee, cf, i); j != i && j < len(args) {
						sc.vars[fmt.Sprintf("arg%d", i)] = args[j]
					}
				}
			}
		}
		t, err := x.evalBool(st, top, cl.E, sc)
		if err != nil {
			x.unsupported("guard %s in %s: %v", pat, x.TopName, err)
			t = TFalse
		}
		st.callCounts["guard:"+labelOr(cl, pat)]++
		// cover: the guarded call site must be reachable (a *discharged* V obligation is an alarm)
		if cl.Kind == "guard" {
			x.emit(st, fr, "V", "reach.guard."+labelOr(cl, mangle(pat)), TFalse, at)
		}
		x.emit(st, fr, "F6", "guard."+labelOr(cl, mangle(pat)), t, at)
		x.guardHits[labelOr(cl, mangle(pat))]++
	}
}

func matchCallee(pat, callee string) bool {
	if pat == callee {
		return true
	}
	if i := strings.Index(callee, "["); i > 0 && strings.HasSuffix(callee, "]") && !strings.Contains(pat, "[") {
		callee = callee[:i] // generic instance: match by the generic name
		if pat == callee {
			return true
		}
	}
	if strings.HasPrefix(pat, "*") {
		return strings.HasSuffix(callee, pat[1:])
	}
	return strings.HasSuffix(callee, "."+pat) || strings.HasSuffix(callee, ")."+pat)
}

// ---------- contracts at call sites ----------

func (x *Exec) applyContract(st *State, fr *Frame, at ssa.Instruction, name string, c *Contract, sig *types.Signature, fn *ssa.Function, args []Val) Val {
	x.ByContract[name]++
	if _, t := c.Flags["trusted"]; t {
		x.Trusted["contract:"+name]++
	}
	sc := newScope()
	// bind formals: header may rename "(a, b) r"
	names := contractParamNames(c, sig, fn)
	for i, a := range args {
		if i < len(names) && names[i] != "" && names[i] != "_" {
			sc.vars[names[i]] = a
		}
		sc.vars[fmt.Sprintf("arg%d", i)] = a
	}
	// a parameter renamed since the ledger was recorded keeps answering to its recorded name
	for n, d := range loadBaseNames()[name] {
		var i int
		if _, err := fmt.Sscanf(d, "param#%d", &i); err == nil && !strings.Contains(d, "|") && i < len(args) {
			if _, ok := sc.vars[n]; !ok {
				sc.vars[n] = args[i]
			}
		}
	}
	if fn != nil {
		// a closure that became a function takes as parameters what it captured, possibly under new
		// names: its contract keeps naming them as recorded
		retargetMu.Lock()
		ren := retargetInputs[fn]
		retargetMu.Unlock()
		for old, cur := range ren {
			if _, ok := sc.vars[old]; ok {
				continue
			}
			for i, p := range fn.Params {
				if p.Name() == cur && i < len(args) {
					sc.vars[old] = args[i]
				}
			}
		}
	}
	sc.oldHeap = copyHeap(st.heap)
	sc.oldWorlds = copyWorlds(st.worlds)
	sc.world = 0
	if fn != nil {
		sc.pkg = fn.Pkg
		// a closure's contract speaks about its captured variables by name: they are read from their
		// cells (the pre-state heap inside old(...))
		for i, fv := range fn.FreeVars {
			if i < len(x.siteBindings) {
				if sc.freeCells == nil {
					sc.freeCells = map[string]Val{}
				}
				sc.freeCells[fv.Name()] = x.siteBindings[i]
			}
		}
	}
	for _, a := range args {
		if a.World > 0 {
			sc.world = a.World - 1
			break
		}
	}
	for i, cl := range c.Of("requires") {
		t, err := x.evalBool(st, nil, cl.E, sc)
		if err != nil {
			x.Abstracted[fmt.Sprintf("callee clause not usable at call site: requires %d of %s (%v)", i, name, err)]++
			continue
		}
		lbl := "pre." + methodOf(name) + "." + labelOr(cl, "req")
		n := st.callCounts["site:"+lbl]
		st.callCounts["site:"+lbl]++
		if x.noPanicOrPre() {
			x.emit(st, fr, "F2", fmt.Sprintf("%s#%d", lbl, n), t, at)
		}
		st.assume(t)
	}
	// frame: modifies
	if m, ok := c.Flags["modifies"]; ok {
		for _, region := range strings.Fields(strings.ReplaceAll(m, ",", " ")) {
			x.havocRegion(st, sc, region, name)
		}
	} else if _, pure := c.Flags["pure"]; !pure {
		_, wu := c.Flags["world_unchanged"]
		if os.Getenv("GVC_TRACE_FRAME") != "" {
			fmt.Fprintf(os.Stderr, "applyContract %s flags=%v wu=%v\n", name, c.Flags, wu)
		}
		if _, ro := c.Flags["reads_only"]; !ro && !wu {
			// no frame given: treat like an abstract call w.r.t. the world if the callee may write it
			if fn == nil || x.writesWorld(fn, 0) {
				w := sc.world
				if w < len(st.worlds) {
					old := st.worlds[w]
					x.D.DeclareFun("eff", []string{SStr, SWorld, SInt}, SWorld)
					nw := x.freshWorld(fmt.Sprintf("W%d", w))
					st.assume(Eq(nw.Ver, App(SWorld, "eff", x.S.StrLit(name), old.Ver, x.D.Fresh("effarg", SInt))))
					st.worlds[w] = nw
				}
			}
		}
	}
	var results *types.Tuple
	if sig != nil {
		results = sig.Results()
	}
	rv := x.resultVal(st, name, results)
	var res []Val
	if rv.Tup != nil {
		res = rv.Tup
	} else if results != nil && results.Len() == 1 {
		res = []Val{rv}
	}
	// bind results
	rnames := contractResultNames(c, sig)
	for i, r := range res {
		sc.vars[fmt.Sprintf("result%d", i)] = r
		if i < len(rnames) && rnames[i] != "" {
			sc.vars[rnames[i]] = r
		}
		if r.T.Sort == SIface && i == len(res)-1 && results != nil && isErrorType(results.At(i).Type()) {
			sc.vars["err"] = r
		}
	}
	if rn := recordedResultNames(name); len(rn) == len(res) {
		for i, n := range rn {
			if n == "" || n == "_" {
				continue
			}
			if _, ok := sc.vars[n]; !ok {
				sc.vars[n] = res[i]
			}
		}
	}
	if len(res) > 0 {
		if _, ok := sc.vars["result"]; !ok {
			sc.vars["result"] = res[0]
		}
	}
	for i, cl := range c.Of("ensures") {
		if exprUsesPathBuiltins(cl.E) {
			// ncalls / lastret / local speak about the callee's own execution path: such a clause is
			// an obligation of the callee, not a fact a caller can use
			continue
		}
		t, err := x.evalBool(st, nil, cl.E, sc)
		if err != nil {
			x.Abstracted[fmt.Sprintf("callee clause not usable at call site: ensures %d of %s (%v)", i, name, err)]++
			continue
		}
		st.assume(t)
	}
	return rv
}

func (x *Exec) noPanicOrPre() bool {
	if x.TopC == nil {
		return false
	}
	if _, ok := x.TopC.Flags["no_panic"]; ok {
		return true
	}
	_, ok := x.TopC.Flags["check_pre"]
	return ok // (the default run-time-check kinds do not include callee preconditions)
}

func contractParamNames(c *Contract, sig *types.Signature, fn *ssa.Function) []string {
	// header renaming: "Name (a, b) r" or "Name(a, b) (r, err)"
	if i := strings.Index(c.FuncRef, " ("); i > 0 {
		rest := c.FuncRef[i+1:]
		if j := strings.Index(rest, ")"); j > 0 {
			var out []string
			for _, p := range strings.Split(rest[1:j], ",") {
				out = append(out, strings.TrimSpace(p))
			}
			return out
		}
	}
	var out []string
	if fn != nil {
		for _, p := range fn.Params {
			out = append(out, p.Name())
		}
		if len(out) > 0 {
			return out
		}
	}
	if sig != nil {
		if sig.Recv() != nil {
			out = append(out, sig.Recv().Name())
		}
		for i := 0; i < sig.Params().Len(); i++ {
			out = append(out, sig.Params().At(i).Name())
		}
	}
	return out
}

func contractResultNames(c *Contract, sig *types.Signature) []string {
	if i := strings.Index(c.FuncRef, " ("); i > 0 {
		rest := c.FuncRef[i+1:]
		if j := strings.Index(rest, ")"); j > 0 {
			r := strings.TrimSpace(rest[j+1:])
			r = strings.Trim(r, "()")
			if r != "" {
				var out []string
				for _, p := range strings.Split(r, ",") {
					out = append(out, strings.TrimSpace(p))
				}
				return out
			}
		}
	}
	var out []string
	if sig != nil {
		for i := 0; i < sig.Results().Len(); i++ {
			out = append(out, sig.Results().At(i).Name())
		}
	}
	return out
}

// havocRegion forgets a region named in a modifies clause: "W" (whole world), "W.<ghost>",
// "*<param>" (object a pointer parameter refers to), "elems(<param>)".
func (x *Exec) havocRegion(st *State, sc *scope, region, callee string) {
	switch {
	case region == "W":
		w := sc.world
		old := st.worlds[w]
		x.D.DeclareFun("eff", []string{SStr, SWorld, SInt}, SWorld)
		nw := x.freshWorld(fmt.Sprintf("W%d", w))
		st.assume(Eq(nw.Ver, App(SWorld, "eff", x.S.StrLit(callee), old.Ver, x.D.Fresh("effarg", SInt))))
		st.worlds[w] = nw
	case strings.HasPrefix(region, "W."):
		g := region[2:]
		w := sc.world
		cur := x.ghost(st.worlds[w], g)
		st.worlds[w].Ghost[g] = x.D.Fresh("g."+g, cur.Sort)
		// the version moves too (something in the store changed)
		old := st.worlds[w]
		x.D.DeclareFun("eff", []string{SStr, SWorld, SInt}, SWorld)
		nv := x.D.Fresh("W.ver", SWorld)
		st.assume(Eq(nv, App(SWorld, "eff", x.S.StrLit(callee), old.Ver, x.D.Fresh("effarg", SInt))))
		st.worlds[w].Ver = nv
	case strings.HasPrefix(region, "*"):
		if v, ok := sc.vars[region[1:]]; ok {
			x.havocObject(st, v)
		} else if e, err := ParseExpr(region[1:]); err == nil {
			// "*p.F": the object a pointer field of a parameter refers to
			if v, err := x.evalSpec(st, nil, e, sc); err == nil && v.T.Sort == SRef && v.Typ != nil {
				x.havocObject(st, v)
			}
		}
	case strings.HasPrefix(region, "elems(") && strings.HasSuffix(region, ")"):
		if v, ok := sc.vars[region[6:len(region)-1]]; ok && v.T.Sort == SSlice {
			if sl, ok := v.Typ.Underlying().(*types.Slice); ok {
				sort := x.S.SortOf(sl.Elem())
				n, s := elemArrName(sort)
				arr := x.heapArr(st, n, s)
				x.setHeap(st, n, Store(arr, App(SRef, "s.base", v.T), x.D.Fresh("elems", ArraySort(SInt, sort))))
			}
		}
	}
}

// ghost returns the current value of a ghost field of a world (declared in spec files).
func (x *Exec) ghost(w WorldState, name string) Term {
	if t, ok := w.Ghost[name]; ok {
		return t
	}
	sort, ok := x.GhostSorts[name]
	if !ok {
		sort = ArraySort(SBytes, SBool)
	}
	// default: an uninterpreted function of the version
	fn := "ghost_" + mangle(name)
	x.D.DeclareFun(fn, []string{SWorld}, sort)
	return App(sort, fn, w.Ver)
}

// ---------- builtins ----------

func (x *Exec) builtin(st *State, fr *Frame, at ssa.Instruction, b *ssa.Builtin, args []Val, cc *ssa.CallCommon) Val {
	switch b.Name() {
	case "len":
		a := args[0]
		switch a.T.Sort {
		case SSlice:
			return Val{T: App(SInt, "s.len", a.T), Typ: types.Typ[types.Int]}
		case SStr:
			return Val{T: App(SInt, "str.len_", a.T), Typ: types.Typ[types.Int]}
		case SRef: // map
			x.D.DeclareFun("map.len", []string{SRef, SInt}, SInt)
			v := Val{T: App(SInt, "map.len", a.T, x.mapEpoch(st)), Typ: types.Typ[types.Int]}
			st.assume(App(SBool, ">=", v.T, IntLit(0)))
			return v
		}
		if at, ok := a.Typ.Underlying().(*types.Array); ok {
			return Val{T: IntLit(at.Len()), Typ: types.Typ[types.Int]}
		}
	case "cap":
		if args[0].T.Sort == SSlice {
			return Val{T: App(SInt, "s.cap", args[0].T), Typ: types.Typ[types.Int]}
		}
	case "append":
		return x.appendOp(st, fr, at, args)
	case "copy":
		return x.copyOp(st, args)
	case "delete":
		m, k := args[0], args[1]
		if mt, ok := m.Typ.Underlying().(*types.Map); ok {
			ks := x.S.SortOf(mt.Key())
			k = x.coerce(st, k, mt.Key())
			dn, ds := "MD."+ks, ArraySort(SRef, ArraySort(ks, SBool))
			darr := x.heapArr(st, dn, ds)
			x.setHeap(st, dn, Store(darr, m.T, Store(Select(darr, m.T), k.T, TFalse)))
		}
		return Val{T: Term{"unit", SUnit}}
	case "panic":
		x.doPanic(st, fr, at, "builtin panic")
		return Val{T: Term{"unit", SUnit}}
	case "recover":
		return Val{T: TINil, Typ: cc.Signature().Results().At(0).Type()}
	case "print", "println":
		return Val{T: Term{"unit", SUnit}}
	case "min", "max":
		if len(args) == 2 && args[0].T.Sort == SInt {
			op := "<="
			if b.Name() == "max" {
				op = ">="
			}
			return Val{T: Ite(App(SBool, op, args[0].T, args[1].T), args[0].T, args[1].T), Typ: args[0].Typ}
		}
	}
	x.unsupported("builtin %s", b.Name())
	res := cc.Signature().Results()
	return x.resultVal(st, "builtin."+b.Name(), res)
}

func (x *Exec) mapEpoch(st *State) Term {
	// map.len depends on the domain arrays; tie it to the current domain heap name set
	var parts []string
	for _, k := range sortedKeys(st.heap) {
		if strings.HasPrefix(k, "MD.") {
			parts = append(parts, st.heap[k].S)
		}
	}
	id := shortHash(strings.Join(parts, "|"))
	name := "mapepoch_" + id
	x.D.DeclareFun(name, nil, SInt)
	return Term{name, SInt}
}

func (x *Exec) appendOp(st *State, fr *Frame, at ssa.Instruction, args []Val) Val {
	s, add := args[0], args[1]
	st2, ok := s.Typ.Underlying().(*types.Slice)
	if !ok {
		return x.freshVal(st, "append", s.Typ)
	}
	sort := x.S.SortOf(st2.Elem())
	n, as := elemArrName(sort)
	arr := x.heapArr(st, n, as)
	oldRow := Select(arr, App(SRef, "s.base", s.T))
	base := x.newRef(st, "append")
	sLen, sOff := App(SInt, "s.len", s.T), App(SInt, "s.off", s.T)
	var addLen Term
	if add.T.Sort == SStr { // append([]byte, string...)
		addLen = App(SInt, "str.len_", add.T)
	} else {
		addLen = App(SInt, "s.len", add.T)
	}
	newLen := x.define(st, "alen", App(SInt, "+", sLen, addLen))
	res := Val{T: App(SSlice, "mk-slice", base, IntLit(0), newLen, x.D.Fresh("acap", SInt)), Typ: s.Typ}
	st.assume(App(SBool, "<=", newLen, App(SInt, "s.cap", res.T)))
	// lemma for the spec builtins sum / sumfield: append keeps the old elements, so the sum over the
	// old length is the same in the new row (an induction the solver cannot do; sound by definition)
	if fns := x.sumFuns[sort]; len(fns) > 0 {
		oldDefRow := x.define(st, "sumold", oldRow)
		defer func() {
			n2, as2 := elemArrName(sort)
			newRow := Select(x.heapArr(st, n2, as2), base)
			for _, fn := range sortedKeys(fns) {
				st.assume(Eq(App(SInt, fn, newRow, IntLit(0), sLen), App(SInt, fn, oldDefRow, sOff, sLen)))
			}
		}()
	}
	// content: exact when the appended slice has a concrete small length
	k := concreteInt(addLen)
	if add.T.Sort == SSlice && k >= 0 && k <= 8 {
		addRow := Select(arr, App(SRef, "s.base", add.T))
		addOff := App(SInt, "s.off", add.T)
		if sOff.S == "0" {
			// the old row itself, then stores of the new elements
			row := oldRow
			for i := 0; i < k; i++ {
				row = Store(row, App(SInt, "+", sLen, IntLit(int64(i))), Select(addRow, App(SInt, "+", addOff, IntLit(int64(i)))))
			}
			x.setHeap(st, n, Store(arr, base, row))
			return res
		}
		// symbolic offset: the new row is a fresh array N with N[i] = old[off+i] below the old length
		// (quantified, triggered by reads of N) and N[len+i] = added[i] (ground facts)
		rowS := ArraySort(SInt, sort)
		oldDef := x.define(st, "aold", oldRow)
		nrow := x.D.Fresh("arow", rowS)
		st.assume(Term{fmt.Sprintf("(forall ((i Int)) (! (=> (and (<= 0 i) (< i %[1]s)) (= (select %[2]s i) (select %[3]s (+ %[4]s i)))) :pattern ((select %[2]s i))))", sLen.S, nrow.S, oldDef.S, sOff.S), SBool})
		for i := 0; i < k; i++ {
			st.assume(Eq(Select(nrow, App(SInt, "+", sLen, IntLit(int64(i)))), Select(addRow, App(SInt, "+", addOff, IntLit(int64(i))))))
		}
		x.setHeap(st, n, Store(arr, base, nrow))
		return res
	}
	// general case: abstract content
	fnm := "arr.append." + mangle(sort)
	if !x.D.HasFun(fnm) {
		as1 := ArraySort(SInt, sort)
		x.D.DeclareFun(fnm, []string{as1, SInt, SInt, as1, SInt, SInt}, as1)
		// content of append(s, t...): normalised to offset 0 — first the old elements, then the added ones
		x.D.Axiom(fmt.Sprintf("(forall ((a %[1]s) (o Int) (n Int) (b %[1]s) (p Int) (m Int) (i Int)) (! (= (select (%[2]s a o n b p m) i) (ite (and (<= 0 i) (< i n)) (select a (+ o i)) (select b (+ p (- i n))))) :pattern ((select (%[2]s a o n b p m) i))))", as1, fnm))
	}
	var addRow, addOff Term
	if add.T.Sort == SSlice {
		addRow = Select(arr, App(SRef, "s.base", add.T))
		addOff = App(SInt, "s.off", add.T)
	} else {
		addRow = x.D.Fresh("strbytes", ArraySort(SInt, sort))
		addOff = IntLit(0)
	}
	x.setHeap(st, n, Store(arr, base, App(ArraySort(SInt, sort), fnm, oldRow, sOff, sLen, addRow, addOff, addLen)))
	return res
}

func concreteInt(t Term) int {
	n := 0
	if t.S == "" {
		return -1
	}
	for _, c := range t.S {
		if c < '0' || c > '9' {
			return -1
		}
		n = n*10 + int(c-'0')
		if n > 1<<20 {
			return -1
		}
	}
	return n
}

func (x *Exec) copyOp(st *State, args []Val) Val {
	dst, src := args[0], args[1]
	nT := x.D.Fresh("ncopy", SInt)
	var srcLen Term
	if src.T.Sort == SStr {
		srcLen = App(SInt, "str.len_", src.T)
	} else {
		srcLen = App(SInt, "s.len", src.T)
	}
	dl := App(SInt, "s.len", dst.T)
	st.assume(Eq(nT, Ite(App(SBool, "<=", dl, srcLen), dl, srcLen)))
	if sl, ok := dst.Typ.Underlying().(*types.Slice); ok {
		sort := x.S.SortOf(sl.Elem())
		n, as := elemArrName(sort)
		arr := x.heapArr(st, n, as)
		fnm := "arr.copy." + mangle(sort)
		x.D.DeclareFun(fnm, []string{ArraySort(SInt, sort), SInt, ArraySort(SInt, sort), SInt, SInt}, ArraySort(SInt, sort))
		var srcRow, srcOff Term
		if src.T.Sort == SSlice {
			srcRow = Select(arr, App(SRef, "s.base", src.T))
			srcOff = App(SInt, "s.off", src.T)
		} else {
			srcRow = x.D.Fresh("strbytes", ArraySort(SInt, sort))
			srcOff = IntLit(0)
		}
		dstRow := Select(arr, App(SRef, "s.base", dst.T))
		_ = fnm
		newRow := x.D.Fresh("cprow", ArraySort(SInt, sort))
		dOff := App(SInt, "s.off", dst.T)
		x.setHeap(st, n, Store(arr, App(SRef, "s.base", dst.T), newRow))
		// pointwise definition of the copied row, instantiated for this call (pattern: select newRow i)
		srcIdx := "(+ " + srcOff.S + " (- i " + dOff.S + "))"
		if dOff.S == "0" {
			srcIdx = "(+ " + srcOff.S + " i)"
			if srcOff.S == "0" {
				srcIdx = "i"
			}
		}
		hiB := App(SInt, "+", dOff, nT)
		st.assume(Term{fmt.Sprintf("(forall ((i Int)) (! (= (select %[1]s i) (ite (and (<= %[2]s i) (< i %[3]s)) (select %[4]s %[5]s) (select %[6]s i))) :pattern ((select %[1]s i))))", newRow.S, dOff.S, hiB.S, x.define(st, "cpsrc", srcRow).S, srcIdx, x.define(st, "cpdst", dstRow).S), SBool})
	}
	return Val{T: nT, Typ: types.Typ[types.Int]}
}

// ---------- pure callees (contract flag `pure <callee>, ...`) ----------
//
// A callee listed as pure by the contract of the function under verification is modelled as an
// uninterpreted function of its argument terms: two calls with equal arguments return equal
// results, and the call has no effect. This is an ASSUMPTION (listed in the trusted base): it is
// meant for generated protobuf getters and similar accessors reached through an interface, where
// the executor cannot see the body. Specs can refer to the same function by its method name.

type pureFun struct {
	smt     string
	args    []string
	results []string
	rtypes  []types.Type
}

func (x *Exec) purePattern(name string) (string, bool) {
	if x.TopC == nil {
		return "", false
	}
	for _, pat := range flagList(x.TopC, "pure") {
		if matchCallee(pat, name) {
			return pat, true
		}
	}
	return "", false
}

// lookupSig resolves "(pkg.Type).Method" or "pkg.Func" to a signature using type information only.
func (x *Exec) lookupSig(name string) *types.Signature {
	if sig := x.lookupSigDecl(name); sig != nil {
		return sig
	}
	// a library function whose package is not part of the SSA program: take the signature from a
	// call site in the function under contract
	if x.Top != nil {
		fns := []*ssa.Function{x.Top}
		fns = append(fns, x.Top.AnonFuncs...)
		for _, fn := range fns {
			for _, b := range fn.Blocks {
				for _, in := range b.Instrs {
					if c, ok := in.(*ssa.Call); ok {
						if n := staticCalleeName(c.Common()); n == name {
							return c.Common().Signature()
						}
					}
				}
			}
		}
	}
	return nil
}

func (x *Exec) lookupSigDecl(name string) *types.Signature {
	findPkg := func(path string) *types.Package {
		for _, p := range x.P.SSA.AllPackages() {
			if p.Pkg.Path() == path || p.Pkg.Path() == ModPath+"/"+path {
				return p.Pkg
			}
		}
		return nil
	}
	if k := strings.Index(name, ".("); k > 0 && !strings.HasPrefix(name, "(") {
		// static method spelling "pkg.(*T).M" -> "(pkg.T).M"
		rest := name[k+2:]
		if e := strings.Index(rest, ")."); e > 0 {
			name = "(" + name[:k] + "." + strings.TrimPrefix(rest[:e], "*") + ")." + rest[e+2:]
		}
	}
	if strings.HasPrefix(name, "(") {
		i := strings.Index(name, ").")
		if i < 0 {
			return nil
		}
		tn := strings.TrimPrefix(name[1:i], "*")
		meth := name[i+2:]
		j := strings.LastIndex(tn, ".")
		if j < 0 {
			return nil
		}
		pkg := findPkg(tn[:j])
		if pkg == nil {
			return nil
		}
		obj := pkg.Scope().Lookup(tn[j+1:])
		if obj == nil {
			return nil
		}
		for _, t := range []types.Type{obj.Type(), types.NewPointer(obj.Type())} {
			o, _, _ := types.LookupFieldOrMethod(t, true, pkg, meth)
			if f, ok := o.(*types.Func); ok {
				return f.Type().(*types.Signature)
			}
		}
		return nil
	}
	j := strings.LastIndex(name, ".")
	if j < 0 {
		return nil
	}
	pkg := findPkg(name[:j])
	if pkg == nil {
		return nil
	}
	if f, ok := pkg.Scope().Lookup(name[j+1:]).(*types.Func); ok {
		return f.Type().(*types.Signature)
	}
	return nil
}

func (x *Exec) pureDecl(key string, argSorts []string, results *types.Tuple) *pureFun {
	if x.pureFuns == nil {
		x.pureFuns = map[string]*pureFun{}
	}
	if pf, ok := x.pureFuns[key]; ok {
		return pf
	}
	pf := &pureFun{smt: "pf_" + mangle(key), args: argSorts}
	if len(pf.smt) > 90 {
		pf.smt = pf.smt[:70] + shortHash(key)
	}
	for i := 0; i < results.Len(); i++ {
		rs := x.S.SortOf(results.At(i).Type())
		if isByteSlice(results.At(i).Type()) {
			rs = SBytes
		}
		pf.results = append(pf.results, rs)
		pf.rtypes = append(pf.rtypes, results.At(i).Type())
		x.D.DeclareFun(fmt.Sprintf("%s.%d", pf.smt, i), argSorts, rs)
	}
	x.pureFuns[key] = pf
	x.Trusted["assumed pure: "+key] = 0
	return pf
}

func isByteSlice(t types.Type) bool {
	if t == nil {
		return false
	}
	sl, ok := t.Underlying().(*types.Slice)
	if !ok {
		return false
	}
	b, ok := sl.Elem().Underlying().(*types.Basic)
	return ok && (b.Kind() == types.Uint8)
}

// pureArgTerm: byte slices are passed to pure functions by content (sort Bytes), everything else
// by its term.
func (x *Exec) pureArgTerm(h map[string]Term, a Val) Term {
	if a.T.Sort == SSlice && isByteSlice(a.Typ) {
		return x.bytesOfIn(h, a.T)
	}
	if a.T.Sort == SRef && a.Typ != nil && os.Getenv("GVC_PURE_BY_REF") == "" {
		// a pointer to a struct (generated getters, methods with pointer receivers): the function
		// depends on what the object holds now, not on the object's identity -- a write to a field
		// between two calls changes the result
		if ptr, ok := a.Typ.Underlying().(*types.Pointer); ok {
			if si := x.S.StructInfo(ptr.Elem()); si != nil && len(si.fields) > 0 {
				if t, _, err := x.loadLV(h, &LVal{Kind: "obj", Root: a.T, RootT: ptr.Elem()}); err == nil {
					return t
				}
			}
		}
	}
	return a.T
}

func (x *Exec) pureApply(st *State, h map[string]Term, pf *pureFun, args []Val) Val {
	var ts []Term
	for _, a := range args {
		ts = append(ts, x.pureArgTerm(h, a))
	}
	var res []Val
	for i := range pf.results {
		app := App(pf.results[i], fmt.Sprintf("%s.%d", pf.smt, i), ts...)
		if pf.results[i] == SBytes {
			// a []byte result: content given by the function, identity fresh (call) / irrelevant (spec)
			if st == nil {
				res = append(res, Val{T: app, Typ: nil})
				continue
			}
			r := x.freshVal(st, "purebytes", pf.rtypes[i])
			st.assume(Eq(x.bytesOf(st, r), x.define(st, "pure", app)))
			st.assume(Eq(App(SInt, "s.len", r.T), App(SInt, "bytes.len_", x.bytesOf(st, r))))
			// the backing array is none of the caller's own allocations, past or future
			rb := App(SInt, "rid", App(SRef, "s.base", r.T))
			st.assume(Or(App(SBool, "<=", rb, IntLit(0)), App(SBool, ">=", rb, IntLit(1000000))))
			x.sawRef(st, r)
			res = append(res, r)
			continue
		}
		v := Val{T: app, Typ: pf.rtypes[i]}
		if st != nil {
			v.T = x.define(st, "pure", v.T)
			x.assumeTyped(st, v)
		}
		res = append(res, v)
	}
	switch len(res) {
	case 0:
		return Val{T: Term{"unit", SUnit}}
	case 1:
		return res[0]
	}
	return Val{T: Term{"unit", SUnit}, Tup: res}
}

// callPure handles a call to a callee flagged pure; ok=false when the callee is not flagged.
func (x *Exec) callPure(st *State, name string, args []Val, results *types.Tuple) (Val, bool) {
	pat, ok := x.purePattern(name)
	if !ok || results == nil || results.Len() == 0 {
		return Val{}, false
	}
	var sorts []string
	for _, a := range args {
		sorts = append(sorts, x.pureArgTerm(st.heap, a).Sort)
	}
	pf := x.pureDecl(pat, sorts, results)
	if len(pf.args) != len(args) {
		return Val{}, false
	}
	for i := range args {
		if pf.args[i] != sorts[i] {
			return Val{}, false
		}
	}
	x.Trusted["assumed pure: "+pat]++
	return x.pureApply(st, st.heap, pf, args), true
}

// specPure resolves a spec-level call `Method(args)` against the pure list of the contract.
func (x *Exec) specPure(st *State, h map[string]Term, fun string, args []Val) (Val, bool) {
	if x.TopC == nil {
		return Val{}, false
	}
	for _, pat := range flagList(x.TopC, "pure") {
		if methodOf(pat) != fun {
			continue
		}
		if len(args) == 1 && os.Getenv("GVC_NO_GETTERS") == "" {
			// a generated getter is its field, in specifications as in code (getters.go)
			for _, cand := range []string{pat, strings.TrimPrefix(x.TopPkgRel(), "") + "." + pat} {
				if gf := x.P.Funcs[cand]; gf != nil {
					if v, ok := x.getterValueSt(st, h, gf, args[0]); ok {
						// as a pure function a []byte result is its content (that is how clauses compare it)
						if st != nil {
							x.assumeTyped(st, v)
						}
						if isByteSlice(gf.Signature.Results().At(0).Type()) && v.T.Sort == SSlice {
							sl := v.T
							v.T = x.bytesOfIn(h, v.T)
							v.OfSlice = &sl
						}
						return v, true
					}
				}
			}
		}
		sig := x.lookupSig(pat)
		if sig == nil && x.Top != nil && x.Top.Pkg != nil {
			// pattern without a package: the package of the function under verification
			sig = x.lookupSig(strings.TrimPrefix(x.Top.Pkg.Pkg.Path(), ModPath+"/") + "." + pat)
		}
		if sig == nil {
			continue
		}
		var sorts []string
		for _, a := range args {
			sorts = append(sorts, x.pureArgTerm(h, a).Sort)
		}
		pf := x.pureDecl(pat, sorts, sig.Results())
		if len(pf.args) != len(args) {
			continue
		}
		okSorts := true
		for i := range args {
			if pf.args[i] != sorts[i] {
				okSorts = false
			}
		}
		if !okSorts {
			continue
		}
		return x.pureApply(nil, h, pf, args), true
	}
	return Val{}, false
}

func staticCalleeName(cc *ssa.CallCommon) string {
	if cc.IsInvoke() {
		return "(" + shortPkgType(cc.Value.Type()) + ")." + cc.Method.Name()
	}
	if f := cc.StaticCallee(); f != nil {
		return CanonName(f)
	}
	if b, ok := cc.Value.(*ssa.Builtin); ok {
		return "builtin." + b.Name()
	}
	return ""
}

// siteOrdinal: index of call instruction `at` among the call sites in fn (source order) whose static
// callee matches pat; -1 when `at` is not such a site.
func (x *Exec) siteOrdinal(fn *ssa.Function, at ssa.Instruction, pat string) int {
	type site struct {
		in  ssa.Instruction
		pos token.Pos
		seq int
	}
	var sites []site
	n := 0
	for _, b := range fn.Blocks {
		for _, in := range b.Instrs {
			n++
			var cc *ssa.CallCommon
			switch c := in.(type) {
			case *ssa.Call:
				cc = c.Common()
			case *ssa.Defer:
				cc = c.Common()
			}
			if cc == nil {
				continue
			}
			name := staticCalleeName(cc)
			if name == "" && !cc.IsInvoke() {
				name = "<dynamic>"
			}
			if name != "" && matchCallee(pat, name) {
				sites = append(sites, site{in, in.Pos(), n})
			}
		}
	}
	sort.SliceStable(sites, func(i, j int) bool {
		if sites[i].pos != sites[j].pos {
			return sites[i].pos < sites[j].pos
		}
		return sites[i].seq < sites[j].seq
	})
	for i, s := range sites {
		if s.in == at {
			return i
		}
	}
	return -1
}

// ---------- continues_after (loop clause) ----------
//
// `loop N continues_after <callee>`: once the callee has been called in an iteration of loop N, the
// function does not return before that iteration ends — a failure of the callee must not cut the
// sweep short. Realised as: a top-level return reached while the flag is set must be infeasible.

func (x *Exec) noteContinuesAfter(st *State, fr *Frame, callee string) {
	if x.TopC == nil || len(st.frames) == 0 {
		return
	}
	for _, cl := range x.TopC.Clauses {
		if cl.Kind == "continues_after" && len(cl.Args) > 0 && matchCallee(cl.Args[0], callee) {
			st.callCounts["ca:"+cl.Loop+":"+cl.Args[0]] = 1
		}
	}
}

func (x *Exec) clearContinuesAfter(st *State, fr *Frame, loopRef string, at ssa.Instruction) {
	for k := range st.callCounts {
		if strings.HasPrefix(k, "ca:"+loopRef+":") {
			// the iteration ended normally after the call: the obligation holds on this path
			parts := strings.SplitN(k, ":", 3)
			x.emit(st, fr, "F6", "loop"+parts[1]+".continues_after."+mangle(parts[2]), TTrue, at)
			delete(st.callCounts, k)
		}
	}
}

func (x *Exec) checkContinuesAfter(st *State, fr *Frame, at ssa.Instruction) {
	for k, v := range st.callCounts {
		if v > 0 && strings.HasPrefix(k, "ca:") {
			parts := strings.SplitN(k, ":", 3)
			x.emit(st, fr, "F6", "loop"+parts[1]+".continues_after."+mangle(parts[2]), TFalse, at)
		}
	}
}

func exprUsesPathBuiltins(e Expr) bool {
	switch e := e.(type) {
	case ECall:
		if e.Fun == "ncalls" || e.Fun == "lastret" || e.Fun == "lastarg" || e.Fun == "local" || e.Fun == "after" {
			return true
		}
		if e.Recv != nil && exprUsesPathBuiltins(e.Recv) {
			return true
		}
		for _, a := range e.Args {
			if exprUsesPathBuiltins(a) {
				return true
			}
		}
	case EUnary:
		return exprUsesPathBuiltins(e.X)
	case EBinary:
		return exprUsesPathBuiltins(e.L) || exprUsesPathBuiltins(e.R)
	case ESel:
		return exprUsesPathBuiltins(e.X)
	case EIndex:
		return exprUsesPathBuiltins(e.X) || exprUsesPathBuiltins(e.I)
	case EOld:
		return exprUsesPathBuiltins(e.X)
	case EQuant:
		return exprUsesPathBuiltins(e.Body)
	case ELet:
		return exprUsesPathBuiltins(e.Val) || exprUsesPathBuiltins(e.Body)
	case EIte:
		return exprUsesPathBuiltins(e.C) || exprUsesPathBuiltins(e.A) || exprUsesPathBuiltins(e.B)
	}
	return false
}

// wantsAfter: the contract under verification mentions after("pattern", …) with a pattern matching
// this callee, so the heap at its return has to be remembered.
func (x *Exec) wantsAfter(name string) bool {
	if x.afterPats == nil {
		x.afterPats = []string{}
		if x.TopC != nil {
			for _, cl := range x.TopC.Clauses {
				collectAfterPats(cl.E, &x.afterPats)
			}
		}
	}
	for _, p := range x.afterPats {
		if matchCallee(p, name) {
			return true
		}
	}
	return false
}

func collectAfterPats(e Expr, out *[]string) {
	switch e := e.(type) {
	case ECall:
		if e.Fun == "after" && len(e.Args) == 2 {
			if lit, ok := e.Args[0].(EStr); ok {
				*out = append(*out, lit.V)
			}
		}
		if e.Recv != nil {
			collectAfterPats(e.Recv, out)
		}
		for _, a := range e.Args {
			collectAfterPats(a, out)
		}
	case EUnary:
		collectAfterPats(e.X, out)
	case EBinary:
		collectAfterPats(e.L, out)
		collectAfterPats(e.R, out)
	case ESel:
		collectAfterPats(e.X, out)
	case EIndex:
		collectAfterPats(e.X, out)
		collectAfterPats(e.I, out)
	case EOld:
		collectAfterPats(e.X, out)
	case EQuant:
		collectAfterPats(e.Body, out)
	case ELet:
		collectAfterPats(e.Val, out)
		collectAfterPats(e.Body, out)
	case EIte:
		collectAfterPats(e.C, out)
		collectAfterPats(e.A, out)
		collectAfterPats(e.B, out)
	}
}

// contractOf: the contract of a callee; an instance of a generic function ("pkg.F[T]") that has no
// contract of its own falls back to the contract written for the generic ("pkg.F").
func (x *Exec) contractOf(name string) (*Contract, bool) {
	if c, ok := x.P.Contracts[name]; ok {
		return c, true
	}
	if i := strings.Index(name, "["); i > 0 && strings.HasSuffix(name, "]") {
		if c, ok := x.P.Contracts[name[:i]]; ok {
			return c, true
		}
	}
	// a function under contract that moved (rename.go): its contract is found under its recorded name
	if old, ok := movedContracts(x.P)[name]; ok {
		if c, ok := x.P.Contracts[old]; ok {
			return c, true
		}
	}
	return nil, false
}

// ---------- call-site ordinals across extracted helpers ----------

type vsite struct {
	chain []ssa.Instruction // call instructions from the function under contract down to the helper
	in    ssa.Instruction
}

// virtualSites lists the call sites matching pat in fn in source order, with the sites of every helper
// that did not exist when the ledger was recorded spliced in at the helper's call.
func (x *Exec) virtualSites(fn *ssa.Function, pat string, chain []ssa.Instruction, depth int) []vsite {
	type site struct {
		in  ssa.Instruction
		pos token.Pos
		seq int
		sub []vsite
	}
	var sites []site
	n := 0
	for _, b := range fn.Blocks {
		for _, in := range b.Instrs {
			n++
			var cc *ssa.CallCommon
			switch c := in.(type) {
			case *ssa.Call:
				cc = c.Common()
			case *ssa.Defer:
				cc = c.Common()
			}
			if cc == nil {
				continue
			}
			name := staticCalleeName(cc)
			if name == "" && !cc.IsInvoke() {
				name = "<dynamic>"
			}
			if name != "" && matchCallee(pat, name) {
				sites = append(sites, site{in: in, pos: in.Pos(), seq: n})
				continue
			}
			if f := cc.StaticCallee(); f != nil && depth < 3 {
				if _, has := x.contractOf(CanonName(f)); !has && isNewHelper(CanonName(f), f) {
					sub := x.virtualSites(f, pat, append(append([]ssa.Instruction(nil), chain...), in), depth+1)
					if len(sub) > 0 {
						sites = append(sites, site{in: in, pos: in.Pos(), seq: n, sub: sub})
					}
				}
			}
		}
	}
	sort.SliceStable(sites, func(i, j int) bool {
		if sites[i].pos != sites[j].pos {
			return sites[i].pos < sites[j].pos
		}
		return sites[i].seq < sites[j].seq
	})
	var out []vsite
	for _, s := range sites {
		if s.sub != nil {
			out = append(out, s.sub...)
		} else {
			out = append(out, vsite{chain: chain, in: s.in})
		}
	}
	return out
}

// virtualOrdinal: the ordinal of the call `at` (in frame fr) among the virtual sites of the function
// under contract; ok is false when fr is neither that function's frame nor a chain of new helpers below it.
func (x *Exec) virtualOrdinal(st *State, fr *Frame, at ssa.Instruction, pat string) (int, bool) {
	if x.Top == nil || len(st.frames) == 0 || st.frames[0].fn != x.Top {
		return 0, false
	}
	var chain []ssa.Instruction
	found := false
	for i, f := range st.frames {
		if i > 0 {
			if _, has := x.contractOf(CanonName(f.fn)); has || !isNewHelper(CanonName(f.fn), f.fn) {
				return 0, false
			}
			chain = append(chain, f.callInstr)
		}
		if f == fr {
			found = true
			break
		}
	}
	if !found {
		return 0, false
	}
	vs := x.virtualSites(x.Top, pat, nil, 0)
	if rec := recordedCalls(x.TopName, pat); rec >= 0 && rec != len(vs) {
		// the helpers brought call sites the recorded function did not have (or some were removed):
		// nothing is renumbered
		return 0, false
	}
	for i, s := range vs {
		if s.in != at || len(s.chain) != len(chain) {
			continue
		}
		same := true
		for j := range chain {
			if s.chain[j] != chain[j] {
				same = false
			}
		}
		if same {
			return i, true
		}
	}
	return 0, false
}

// TopPkgRel: the package (relative to the module) of the function under contract.
func (x *Exec) TopPkgRel() string {
	if x.Top == nil {
		return ""
	}
	for f := x.Top; f != nil; f = f.Parent() {
		if f.Pkg != nil {
			return strings.TrimPrefix(f.Pkg.Pkg.Path(), ModPath+"/")
		}
		if o := f.Origin(); o != nil && o.Pkg != nil {
			return strings.TrimPrefix(o.Pkg.Pkg.Path(), ModPath+"/")
		}
	}
	return ""
}
