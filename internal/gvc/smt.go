package gvc

// SMT term layer: terms are S-expression strings tagged with a sort name.
// Shared sub-terms are kept small by naming every intermediate value with a
// fresh constant and a defining equation (passive form), so plain strings
// stay linear in the size of the executed path.

import (
	"fmt"
	"sort"
	"strings"
	"sync"
)

type Term struct {
	S    string
	Sort string
}

func (t Term) String() string { return t.S }

const (
	SInt   = "Int"
	SBool  = "Bool"
	SReal  = "Real"
	SStr   = "Str"
	SRef   = "Ref"
	SSlice = "Slice"
	SIface = "Iface"
	SFn    = "Fn"
	SMInt  = "MInt"
	SBytes = "Bytes"
	SWorld = "World"
	SUnit  = "Unit"
)

var (
	TTrue  = Term{"true", SBool}
	TFalse = Term{"false", SBool}
	TNull  = Term{"null", SRef}
	TINil  = Term{"inil", SIface}
)

func IntLit(n int64) Term {
	if n < 0 {
		return Term{fmt.Sprintf("(- %d)", -n), SInt}
	}
	return Term{fmt.Sprintf("%d", n), SInt}
}

func IntLitStr(s string) Term {
	if strings.HasPrefix(s, "-") {
		return Term{"(- " + s[1:] + ")", SInt}
	}
	return Term{s, SInt}
}

// selector registry for constructor/selector folding: selector -> (constructor, index)
var selectorIndex = map[string]struct {
	ctor string
	idx  int
}{
	"s.base": {"mk-slice", 0}, "s.off": {"mk-slice", 1}, "s.len": {"mk-slice", 2}, "s.cap": {"mk-slice", 3},
	"mint.nil": {"mk-mint", 0}, "mint.v": {"mk-mint", 1},
	"rat.nil": {"mk-rat", 0}, "rat.num": {"mk-rat", 1}, "rat.den": {"mk-rat", 2},
}

var selMu sync.RWMutex

func RegisterSelector(sel, ctor string, idx int) {
	selMu.Lock()
	defer selMu.Unlock()
	selectorIndex[sel] = struct {
		ctor string
		idx  int
	}{ctor, idx}
}

// splitTop splits "(op a b c)" into op and top-level argument strings.
func splitTop(s string) (string, []string) {
	if len(s) < 2 || s[0] != '(' {
		return s, nil
	}
	body := s[1 : len(s)-1]
	var parts []string
	depth, start := 0, 0
	for i := 0; i < len(body); i++ {
		switch body[i] {
		case '(':
			depth++
		case ')':
			depth--
		case ' ':
			if depth == 0 {
				if i > start {
					parts = append(parts, body[start:i])
				}
				start = i + 1
			}
		}
	}
	if start < len(body) {
		parts = append(parts, body[start:])
	}
	if len(parts) == 0 {
		return s, nil
	}
	return parts[0], parts[1:]
}

func isIntLit(s string) bool {
	if s == "" {
		return false
	}
	for _, c := range s {
		if c < '0' || c > '9' {
			return false
		}
	}
	return true
}

func App(sort, op string, args ...Term) Term {
	if len(args) == 0 {
		return Term{op, sort}
	}
	if len(args) == 1 {
		selMu.RLock()
		si, ok := selectorIndex[op]
		selMu.RUnlock()
		if ok && strings.HasPrefix(args[0].S, "("+si.ctor+" ") {
			_, as := splitTop(args[0].S)
			if si.idx < len(as) {
				return Term{as[si.idx], sort}
			}
		}
	}
	if len(args) == 2 && sort == SInt && (op == "+" || op == "-") {
		if args[1].S == "0" {
			return args[0]
		}
		if op == "+" && args[0].S == "0" {
			return args[1]
		}
		if isIntLit(args[0].S) && isIntLit(args[1].S) && len(args[0].S) < 15 && len(args[1].S) < 15 {
			var a, b int64
			fmt.Sscan(args[0].S, &a)
			fmt.Sscan(args[1].S, &b)
			if op == "+" {
				return IntLit(a + b)
			}
			return IntLit(a - b)
		}
	}
	if len(args) == 2 && (op == "<=" || op == "<" || op == ">=" || op == ">") && isIntLit(args[0].S) && isIntLit(args[1].S) && len(args[0].S) < 15 && len(args[1].S) < 15 {
		var a, b int64
		fmt.Sscan(args[0].S, &a)
		fmt.Sscan(args[1].S, &b)
		r := false
		switch op {
		case "<=":
			r = a <= b
		case "<":
			r = a < b
		case ">=":
			r = a >= b
		case ">":
			r = a > b
		}
		if r {
			return TTrue
		}
		return TFalse
	}
	var b strings.Builder
	b.WriteByte('(')
	b.WriteString(op)
	for _, a := range args {
		b.WriteByte(' ')
		b.WriteString(a.S)
	}
	b.WriteByte(')')
	return Term{b.String(), sort}
}

func Not(a Term) Term {
	switch a.S {
	case "true":
		return TFalse
	case "false":
		return TTrue
	}
	if strings.HasPrefix(a.S, "(not ") {
		return Term{a.S[5 : len(a.S)-1], SBool}
	}
	return App(SBool, "not", a)
}

func And(as ...Term) Term {
	var xs []Term
	for _, a := range as {
		if a.S == "true" {
			continue
		}
		if a.S == "false" {
			return TFalse
		}
		xs = append(xs, a)
	}
	if len(xs) == 0 {
		return TTrue
	}
	if len(xs) == 1 {
		return xs[0]
	}
	return App(SBool, "and", xs...)
}

func Or(as ...Term) Term {
	var xs []Term
	for _, a := range as {
		if a.S == "false" {
			continue
		}
		if a.S == "true" {
			return TTrue
		}
		xs = append(xs, a)
	}
	if len(xs) == 0 {
		return TFalse
	}
	if len(xs) == 1 {
		return xs[0]
	}
	return App(SBool, "or", xs...)
}

func Implies(a, b Term) Term {
	if a.S == "true" {
		return b
	}
	if a.S == "false" || b.S == "true" {
		return TTrue
	}
	return App(SBool, "=>", a, b)
}

func Eq(a, b Term) Term {
	if a.S == b.S {
		return TTrue
	}
	if isIntLit(a.S) && isIntLit(b.S) {
		return TFalse
	}
	if (a.S == "true" && b.S == "false") || (a.S == "false" && b.S == "true") {
		return TFalse
	}
	return App(SBool, "=", a, b)
}

func Ite(c, a, b Term) Term {
	if c.S == "true" {
		return a
	}
	if c.S == "false" {
		return b
	}
	if a.S == b.S {
		return a
	}
	return App(a.Sort, "ite", c, a, b)
}

func Select(arr, idx Term) Term {
	// arr.Sort is "(Array K V)"
	return App(arrayRange(arr.Sort), "select", arr, idx)
}

func Store(arr, idx, v Term) Term { return App(arr.Sort, "store", arr, idx, v) }

func ArraySort(k, v string) string { return "(Array " + k + " " + v + ")" }

// arrayRange returns V of "(Array K V)".
func arrayRange(s string) string {
	_, v := splitArraySort(s)
	return v
}

func arrayDomain(s string) string {
	k, _ := splitArraySort(s)
	return k
}

func splitArraySort(s string) (string, string) {
	if !strings.HasPrefix(s, "(Array ") {
		return "", ""
	}
	body := s[len("(Array ") : len(s)-1]
	depth := 0
	for i := 0; i < len(body); i++ {
		switch body[i] {
		case '(':
			depth++
		case ')':
			depth--
		case ' ':
			if depth == 0 {
				return body[:i], body[i+1:]
			}
		}
	}
	return "", ""
}

func mangle(s string) string {
	var b strings.Builder
	for _, r := range s {
		switch {
		case r >= 'a' && r <= 'z', r >= 'A' && r <= 'Z', r >= '0' && r <= '9', r == '_':
			b.WriteRune(r)
		case r == ' ':
			b.WriteByte('_')
		case r == '(' || r == ')':
		default:
			b.WriteByte('_')
		}
	}
	return b.String()
}

// Decls collects sort/function/constant declarations for one SMT problem family.
type Decls struct {
	sorts     []string // uninterpreted sorts, in order
	sortSeen  map[string]bool
	datatypes []string // full (declare-datatypes ...) commands in dependency order
	dtSeen    map[string]bool
	funs      []string          // (declare-fun ...) / (define-fun ...) commands in order
	funSeen   map[string]string // name -> result sort
	axioms    []string
	fresh     int
}

func NewDecls() *Decls {
	d := &Decls{sortSeen: map[string]bool{}, dtSeen: map[string]bool{}, funSeen: map[string]string{}}
	for _, s := range []string{SStr, SRef, SIface, SFn, SBytes, SWorld} {
		d.DeclareSort(s)
	}
	d.DeclareDatatype(SSlice, "(declare-datatypes ((Slice 0)) (((mk-slice (s.base Ref) (s.off Int) (s.len Int) (s.cap Int)))))")
	d.DeclareDatatype(SMInt, "(declare-datatypes ((MInt 0)) (((mk-mint (mint.nil Bool) (mint.v Int)))))")
	d.DeclareDatatype(SUnit, "(declare-datatypes ((Unit 0)) (((unit))))")
	d.DeclareFun("null", nil, SRef)
	d.DeclareFun("inil", nil, SIface)
	d.DeclareFun("itype", []string{SIface}, SInt)
	d.DeclareFun("str.len_", []string{SStr}, SInt)
	d.DeclareFun("bytes.len_", []string{SBytes}, SInt)
	d.DeclareFun("rid", []string{SRef}, SInt)
	d.Axiom("(= (itype inil) 0)")
	return d
}

func (d *Decls) DeclareSort(s string) {
	if d.sortSeen[s] {
		return
	}
	d.sortSeen[s] = true
	d.sorts = append(d.sorts, s)
}

func (d *Decls) DeclareDatatype(name, cmd string) {
	if d.dtSeen[name] {
		return
	}
	d.dtSeen[name] = true
	d.datatypes = append(d.datatypes, cmd)
}

func (d *Decls) HasFun(name string) bool { _, ok := d.funSeen[name]; return ok }

func (d *Decls) DeclareFun(name string, args []string, res string) {
	if _, ok := d.funSeen[name]; ok {
		return
	}
	d.funSeen[name] = res
	d.funs = append(d.funs, fmt.Sprintf("(declare-fun %s (%s) %s)", name, strings.Join(args, " "), res))
}

func (d *Decls) DefineFun(name string, params []Term, res string, body string) {
	if _, ok := d.funSeen[name]; ok {
		return
	}
	d.funSeen[name] = res
	var ps []string
	for _, p := range params {
		ps = append(ps, fmt.Sprintf("(%s %s)", p.S, p.Sort))
	}
	d.funs = append(d.funs, fmt.Sprintf("(define-fun %s (%s) %s %s)", name, strings.Join(ps, " "), res, body))
}

func (d *Decls) RawFun(name, res, cmd string) {
	if _, ok := d.funSeen[name]; ok {
		return
	}
	d.funSeen[name] = res
	d.funs = append(d.funs, cmd)
}

func (d *Decls) Axiom(a string) { d.axioms = append(d.axioms, a) }

func (d *Decls) Fresh(prefix, sort string) Term {
	d.fresh++
	name := fmt.Sprintf("%s!%d", mangle(prefix), d.fresh)
	d.DeclareFun(name, nil, sort)
	return Term{name, sort}
}

// Preamble renders all declarations.
func (d *Decls) Preamble() string {
	var b strings.Builder
	for _, s := range d.sorts {
		fmt.Fprintf(&b, "(declare-sort %s 0)\n", s)
	}
	for _, c := range d.datatypes {
		b.WriteString(c)
		b.WriteByte('\n')
	}
	for _, f := range d.funs {
		b.WriteString(f)
		b.WriteByte('\n')
	}
	for _, a := range d.axioms {
		fmt.Fprintf(&b, "(assert %s)\n", a)
	}
	return b.String()
}

func sortedKeys[V any](m map[string]V) []string {
	ks := make([]string, 0, len(m))
	for k := range m {
		ks = append(ks, k)
	}
	sort.Strings(ks)
	return ks
}
