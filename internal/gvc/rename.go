package gvc

// Contracts name the locals of the functions they speak about (`found`, `snapshotVal`, `tx`). A
// maintainer who renames such a local changes nothing the property depends on, so the name must not be
// what ties a clause to the code. Every time a ledger is proposed the engine records, for each function
// under contract, a table "local name -> how that local is defined" where the definition is described
// without any local name: parameter i, result k of the n-th call to callee f, element of the range over
// <descriptor>, field g of <descriptor>, allocation n of type T, phi of <descriptors> ... (ledger/names.json).
// When a clause mentions a name the current function no longer has, the name is looked up in that table and
// replaced by the one current local with the same descriptor (unique, and not itself a baseline name with
// that descriptor). If there is no such local the identifier stays unknown and the obligation fails as
// before: a rename is followed, a removed variable is not invented.

import (
	"crypto/sha1"
	"encoding/hex"
	"encoding/json"
	"fmt"
	"go/ast"
	"go/token"
	"go/types"
	"os"
	"path/filepath"
	"sort"
	"strings"
	"sync"

	"golang.org/x/tools/go/ssa"
)

type nameTables map[string]map[string]string

var (
	baseNamesOnce sync.Once
	baseNames     nameTables
	curNamesMu    sync.Mutex
	curNames      = map[*ssa.Function]map[string]string{}
)

func namesPath() string { return filepath.Join(VerifDir, "ledger", "names.json") }

func loadBaseNames() nameTables {
	baseNamesOnce.Do(func() {
		baseNames = nameTables{}
		if b, err := os.ReadFile(namesPath()); err == nil {
			_ = json.Unmarshal(b, &baseNames)
		}
	})
	return baseNames
}

// RecordNames writes the name tables of the given functions into ledger/names.json (developer step,
// together with --propose-ledger; never done by a registered check).
func RecordNames(P *Program, funcs []string) {
	all := nameTables{}
	if b, err := os.ReadFile(namesPath()); err == nil {
		_ = json.Unmarshal(b, &all)
	}
	// every function that exists today: a function that appears later and has no contract is a helper
	// somebody extracted, and is inlined into its callers (isNewHelper)
	known := map[string]bool{}
	for _, n := range strings.Split(all["__funcs__"]["list"], "\n") {
		if n != "" {
			known[n] = true
		}
	}
	for n, fn := range P.Funcs {
		if fn != nil && (fn.Synthetic == "" || strings.HasPrefix(fn.Synthetic, "instance")) {
			known[n] = true
		}
	}
	var kl []string
	for n := range known {
		kl = append(kl, n)
	}
	sort.Strings(kl)
	all["__funcs__"] = map[string]string{"list": strings.Join(kl, "\n")}
	// and a fingerprint of every top-level function of the module (signature + how its locals are
	// defined), by which a function that was merely renamed is recognised (applyFuncRenames)
	sigs := all["__sigs__"]
	if sigs == nil {
		sigs = map[string]string{}
	}
	for n, fn := range P.Funcs {
		if fn == nil || fn.Parent() != nil || len(fn.Blocks) == 0 || !inModule(fn) {
			continue
		}
		if fn.Synthetic != "" && !strings.HasPrefix(fn.Synthetic, "instance") {
			continue
		}
		sigs[n] = funcSig(fn)
	}
	all["__sigs__"] = sigs
	// the parameter names of every top-level function (receiver first), by which `argN` in a guard keeps
	// meaning "the parameter that was N-th when the ledger was recorded" after parameters were swapped or
	// one was added; and the values of the package-level constants, by which a renamed constant is found
	pars := all["__params__"]
	if pars == nil {
		pars = map[string]string{}
	}
	for n, fn := range P.Funcs {
		if fn == nil || fn.Parent() != nil || len(fn.Blocks) == 0 || !inModule(fn) {
			continue
		}
		var ns []string
		for _, p := range fn.Params {
			ns = append(ns, p.Name())
		}
		pars[n] = strings.Join(ns, ",")
	}
	all["__params__"] = pars
	// ... and the names of the results, which a clause may use (`newTokenDenom == denom`) and which stay
	// meaningful when the function stops naming its results
	ress := all["__results__"]
	if ress == nil {
		ress = map[string]string{}
	}
	for n, fn := range P.Funcs {
		if fn == nil || fn.Parent() != nil || len(fn.Blocks) == 0 || !inModule(fn) {
			continue
		}
		var ns []string
		named := false
		r := fn.Signature.Results()
		for i := 0; i < r.Len(); i++ {
			ns = append(ns, r.At(i).Name())
			if r.At(i).Name() != "" && r.At(i).Name() != "_" {
				named = true
			}
		}
		if named {
			ress[n] = strings.Join(ns, ",")
		}
	}
	all["__results__"] = ress
	consts := all["__consts__"]
	if consts == nil {
		consts = map[string]string{}
	}
	for _, pkg := range P.SSA.AllPackages() {
		if pkg.Pkg == nil || !strings.HasPrefix(pkg.Pkg.Path(), ModPath) {
			continue
		}
		rel := strings.TrimPrefix(pkg.Pkg.Path(), ModPath+"/")
		for name, m := range pkg.Members {
			if c, ok := m.(*ssa.NamedConst); ok && c.Value != nil && c.Value.Value != nil {
				consts[rel+"."+name] = c.Value.Value.ExactString()
			}
		}
	}
	all["__consts__"] = consts
	// field names of the module's own (hand-written) struct types, keyed by the sequence of field types:
	// a field that was renamed is found again by its position (recordedFieldIndex)
	flds := all["__fields__"]
	if flds == nil {
		flds = map[string]string{}
	}
	for _, pkg := range P.SSA.AllPackages() {
		if pkg.Pkg == nil || !strings.HasPrefix(pkg.Pkg.Path(), ModPath) {
			continue
		}
		for _, m := range pkg.Members {
			t, ok := m.(*ssa.Type)
			if !ok {
				continue
			}
			st, ok := t.Type().Underlying().(*types.Struct)
			if !ok || st.NumFields() == 0 {
				continue
			}
			if P.Fset != nil && strings.HasSuffix(P.Fset.Position(t.Pos()).Filename, ".pb.go") {
				continue
			}
			key, names := structKey(st)
			if prev, ok := flds[key]; ok && prev != names {
				flds[key] = "!ambiguous"
				continue
			}
			flds[key] = names
		}
	}
	all["__fields__"] = flds
	for _, f := range funcs {
		fn := P.Funcs[f]
		if fn == nil || len(fn.Blocks) == 0 {
			continue
		}
		all[f] = funcNameTable(fn)
	}
	b, _ := json.MarshalIndent(all, "", " ")
	_ = os.WriteFile(namesPath(), b, 0o644)
}

func currentNames(fn *ssa.Function) map[string]string {
	curNamesMu.Lock()
	defer curNamesMu.Unlock()
	if t, ok := curNames[fn]; ok {
		return t
	}
	t := funcNameTable(fn)
	curNames[fn] = t
	return t
}

// renamedLocal: the current name of the baseline local `name` of fn, or "" when `name` still exists,
// was never a local of fn, or cannot be matched uniquely.
func renamedLocal(fn *ssa.Function, name string) string {
	if fn == nil || os.Getenv("GVC_NO_RENAME") != "" {
		return ""
	}
	base := loadBaseNames()[baseKey(fn)]
	if os.Getenv("GVC_TRACE_RETARGET") != "" {
		fmt.Fprintf(os.Stderr, "renamedLocal %s %s base=%v ren=%v\n", baseKey(fn), name, base != nil, retargetInputs[fn])
	}
	if base == nil {
		return ""
	}
	want, ok := base[name]
	if !ok || want == "" {
		return ""
	}
	cur := currentNames(fn)
	if _, still := cur[name]; still {
		return ""
	}
	retargetMu.Lock()
	in := retargetInputs[fn][name]
	retargetMu.Unlock()
	if in != "" {
		return in
	}
	for p := fn.Parent(); p != nil; p = p.Parent() {
		// a variable of an enclosing function that this closure merely no longer captures was not renamed
		// (a renamed captured variable is renamed in the enclosing function as well)
		if _, ok := currentNames(p)[name]; ok {
			return ""
		}
	}
	var cands []string
	for n, d := range cur {
		if d != want {
			continue
		}
		if bd, was := base[n]; was && bd == want {
			continue // that local had this definition before as well: it is not the renamed one
		}
		cands = append(cands, n)
	}
	if len(cands) == 1 {
		return cands[0]
	}
	return ""
}

// funcNameTable describes every source-level local of fn by its definition(s).
func funcNameTable(fn *ssa.Function) map[string]string {
	d := &describer{fn: fn, callOrd: map[ssa.Value]string{}, allocOrd: map[ssa.Value]string{}, memo: map[ssa.Value]string{}}
	d.index()
	defs := map[string]map[string]bool{}
	add := func(name, desc string) {
		if name == "" || name == "_" || desc == "" {
			return
		}
		if defs[name] == nil {
			defs[name] = map[string]bool{}
		}
		defs[name][desc] = true
	}
	for i, p := range fn.Params {
		add(p.Name(), fmt.Sprintf("param#%d", i))
	}
	for i, p := range fn.FreeVars {
		add(p.Name(), fmt.Sprintf("free#%d", i))
	}
	for _, b := range fn.Blocks {
		for _, in := range b.Instrs {
			switch x := in.(type) {
			case *ssa.DebugRef:
				id, ok := x.Expr.(*ast.Ident)
				if !ok {
					continue
				}
				if _, isConst := x.X.(*ssa.Const); isConst && !x.IsAddr {
					continue // declaration marker / constant: carries no definition
				}
				if _, isParam := x.X.(*ssa.Parameter); isParam {
					continue
				}
				add(id.Name, d.desc(x.X, 0))
			case *ssa.Alloc:
				if x.Comment != "" && !strings.Contains(x.Comment, " ") && !strings.Contains(x.Comment, ".") {
					add(x.Comment, d.desc(x, 0))
				}
			}
		}
	}
	out := map[string]string{}
	// shape counters (not locals): how many loops the function has and how often it calls what -- used to
	// tell "a loop / a call site moved into a helper" from "the helper brought a new one" (loopRef,
	// virtualOrdinal)
	out["__loops__"] = fmt.Sprint(countLoops(fn))
	calls := map[string]int{}
	for v, s := range d.callOrd {
		_ = v
		if i := strings.LastIndex(s, "#"); i > 5 {
			calls[s[len("call:"):i]]++
		}
	}
	var cl []string
	for c, n := range calls {
		cl = append(cl, fmt.Sprintf("%s=%d", c, n))
	}
	sort.Strings(cl)
	out["__calls__"] = strings.Join(cl, ";")
	for n, ds := range defs {
		var l []string
		for s := range ds {
			l = append(l, s)
		}
		sort.Strings(l)
		out[n] = strings.Join(l, " | ")
	}
	return out
}

type describer struct {
	fn       *ssa.Function
	callOrd  map[ssa.Value]string
	allocOrd map[ssa.Value]string
	memo     map[ssa.Value]string
}

func (d *describer) index() {
	type item struct {
		v   ssa.Value
		key string
		pos token.Pos
		seq int
	}
	var items []item
	seq := 0
	for _, b := range d.fn.Blocks {
		for _, in := range b.Instrs {
			seq++
			switch x := in.(type) {
			case *ssa.Call:
				n := staticCalleeName(x.Common())
				if n == "" {
					if x.Common().IsInvoke() {
						n = "(" + shortPkgType(x.Common().Value.Type()) + ")." + x.Common().Method.Name()
					} else if b, ok := x.Common().Value.(*ssa.Builtin); ok {
						n = "builtin." + b.Name()
					} else {
						n = "<dynamic>"
					}
				}
				if self := CanonName(d.fn); strings.HasPrefix(n, self+"$") {
					n = "self" + n[len(self):] // the function's own closures: its name is not part of its shape
				}
				items = append(items, item{x, "call:" + stripTypeArgs(n), x.Pos(), seq})
			case *ssa.Alloc:
				items = append(items, item{x, "alloc:" + x.Type().String(), x.Pos(), seq})
			case *ssa.MakeMap:
				items = append(items, item{x, "make:" + x.Type().String(), x.Pos(), seq})
			case *ssa.MakeSlice:
				items = append(items, item{x, "make:" + x.Type().String(), x.Pos(), seq})
			case *ssa.MakeClosure:
				items = append(items, item{x, "closure", x.Pos(), seq})
			case *ssa.TypeAssert:
				items = append(items, item{x, "assert:" + x.AssertedType.String(), x.Pos(), seq})
			}
		}
	}
	sort.SliceStable(items, func(i, j int) bool {
		if items[i].pos != items[j].pos && items[i].pos.IsValid() && items[j].pos.IsValid() {
			return items[i].pos < items[j].pos
		}
		return items[i].seq < items[j].seq
	})
	count := map[string]int{}
	for _, it := range items {
		s := fmt.Sprintf("%s#%d", it.key, count[it.key])
		count[it.key]++
		if strings.HasPrefix(it.key, "call:") {
			d.callOrd[it.v] = s
		} else {
			d.allocOrd[it.v] = s
		}
	}
}

func (d *describer) desc(v ssa.Value, depth int) string {
	if v == nil {
		return "nil"
	}
	if s, ok := d.memo[v]; ok && depth == 0 {
		return s
	}
	if depth > 5 {
		return "..."
	}
	var s string
	switch x := v.(type) {
	case *ssa.Parameter:
		for i, p := range d.fn.Params {
			if p == x {
				s = fmt.Sprintf("param#%d", i)
			}
		}
	case *ssa.FreeVar:
		for i, p := range d.fn.FreeVars {
			if p == x {
				s = fmt.Sprintf("free#%d", i)
			}
		}
	case *ssa.Const:
		s = "const:" + x.String()
	case *ssa.Global:
		s = "global:" + x.Name()
	case *ssa.Function:
		s = "func:" + x.Name()
	case *ssa.Builtin:
		s = "builtin:" + x.Name()
	case *ssa.Call:
		s = d.callOrd[x]
	case *ssa.Alloc, *ssa.MakeMap, *ssa.MakeSlice, *ssa.MakeClosure:
		s = d.allocOrd[v]
	case *ssa.TypeAssert:
		s = d.allocOrd[v] + "(" + d.desc(x.X, depth+1) + ")"
	case *ssa.Extract:
		s = fmt.Sprintf("%s.%d", d.desc(x.Tuple, depth+1), x.Index)
	case *ssa.Next:
		s = "next(" + d.desc(x.Iter, depth+1) + ")"
	case *ssa.Range:
		s = "range(" + d.desc(x.X, depth+1) + ")"
	case *ssa.Phi:
		if x.Comment == "rangeindex" {
			n := 0
			for _, b := range d.fn.Blocks {
				for _, in := range b.Instrs {
					if p, ok := in.(*ssa.Phi); ok && p.Comment == "rangeindex" {
						if p == x {
							s = fmt.Sprintf("rangeindex#%d", n)
						}
						n++
					}
				}
			}
			break
		}
		var es []string
		for _, e := range x.Edges {
			if e == v {
				continue
			}
			es = append(es, d.desc(e, depth+2))
		}
		sort.Strings(es)
		s = "phi(" + strings.Join(uniqStrings(es), ",") + ")"
	case *ssa.UnOp:
		if x.Op == token.MUL {
			s = "load(" + d.desc(x.X, depth+1) + ")"
		} else {
			s = "unop:" + x.Op.String() + "(" + d.desc(x.X, depth+1) + ")"
		}
	case *ssa.BinOp:
		s = "binop:" + x.Op.String() + "(" + d.desc(x.X, depth+1) + "," + d.desc(x.Y, depth+1) + ")"
	case *ssa.FieldAddr:
		s = "&" + fieldNameOf(x.X.Type(), x.Field) + "(" + d.desc(x.X, depth+1) + ")"
	case *ssa.Field:
		s = "." + fieldNameOf(x.X.Type(), x.Field) + "(" + d.desc(x.X, depth+1) + ")"
	case *ssa.IndexAddr:
		s = "&elem(" + d.desc(x.X, depth+1) + "," + d.desc(x.Index, depth+1) + ")"
	case *ssa.Index:
		s = "elem(" + d.desc(x.X, depth+1) + "," + d.desc(x.Index, depth+1) + ")"
	case *ssa.Lookup:
		s = "lookup(" + d.desc(x.X, depth+1) + "," + d.desc(x.Index, depth+1) + ")"
	case *ssa.Slice:
		s = "slice(" + d.desc(x.X, depth+1) + ")"
	case *ssa.Convert:
		s = "conv:" + x.Type().String() + "(" + d.desc(x.X, depth+1) + ")"
	case *ssa.ChangeType:
		s = "conv:" + x.Type().String() + "(" + d.desc(x.X, depth+1) + ")"
	case *ssa.ChangeInterface:
		s = d.desc(x.X, depth+1)
	case *ssa.MakeInterface:
		s = "iface(" + d.desc(x.X, depth+1) + ")"
	default:
		s = fmt.Sprintf("%T", v)
	}
	if depth == 0 {
		d.memo[v] = s
	}
	return s
}

func uniqStrings(in []string) []string {
	var out []string
	for i, s := range in {
		if i == 0 || s != in[i-1] {
			out = append(out, s)
		}
	}
	return out
}

func fieldNameOf(t types.Type, idx int) string {
	if p, ok := t.Underlying().(*types.Pointer); ok {
		t = p.Elem()
	}
	if st, ok := t.Underlying().(*types.Struct); ok && idx < st.NumFields() {
		return st.Field(idx).Name()
	}
	return fmt.Sprintf("f%d", idx)
}

var (
	knownFuncsOnce sync.Once
	knownFuncs     map[string]bool
)

// isNewHelper: a function of the module that did not exist when the ledgers were recorded and has no
// contract -- typically a few lines somebody moved out of a function under contract. It is inlined
// into its callers so that the caller's obligations see the same code as before.
func isNewHelper(name string, fn *ssa.Function) bool {
	if fn == nil || len(fn.Blocks) == 0 || os.Getenv("GVC_NO_RENAME") != "" {
		return false
	}
	if fn.Synthetic != "" && !strings.HasPrefix(fn.Synthetic, "instance") {
		return false
	}
	knownFuncsOnce.Do(func() {
		knownFuncs = map[string]bool{}
		for _, n := range strings.Split(loadBaseNames()["__funcs__"]["list"], "\n") {
			if n != "" {
				knownFuncs[n] = true
			}
		}
	})
	if len(knownFuncs) == 0 || knownFuncs[name] || knownFuncs[stripTypeArgs(name)] {
		return false
	}
	var pkg *ssa.Package
	for f, i := fn, 0; f != nil && pkg == nil && i < 6; i++ {
		pkg = f.Pkg
		if pkg == nil && f.Origin() != nil {
			pkg = f.Origin().Pkg
		}
		f = f.Parent()
	}
	if pkg == nil || !strings.HasPrefix(pkg.Pkg.Path(), ModPath) {
		return false
	}
	// only in packages the recording saw: a package that was not loaded then says nothing about novelty
	rel := strings.TrimPrefix(pkg.Pkg.Path(), ModPath+"/")
	knownPkgsOnce.Do(func() {
		knownPkgs = map[string]bool{}
		for n := range knownFuncs {
			if i := strings.Index(n, ".("); i > 0 {
				knownPkgs[n[:i]] = true
			} else if i := strings.LastIndex(n, "."); i > 0 {
				knownPkgs[n[:i]] = true
			}
		}
	})
	return knownPkgs[rel]
}

var (
	knownPkgsOnce sync.Once
	knownPkgs     map[string]bool
)

// movedCallResult: a baseline local that was nothing but (a component of) the result of the only call to
// some callee, and whose name is gone from the function -- the lines around that call were moved into a
// helper, or the result is now used without being named. The value is what that call returned on this
// path (the helper is inlined, so the call is on the path).
func movedCallResult(st *State, fn *ssa.Function, name string) (Val, bool) {
	if fn == nil || st == nil || os.Getenv("GVC_NO_RENAME") != "" {
		return Val{}, false
	}
	d, ok := loadBaseNames()[baseKey(fn)][name]
	if !ok || strings.Contains(d, " | ") || !strings.HasPrefix(d, "call:") {
		return Val{}, false
	}
	if _, still := currentNames(fn)[name]; still {
		return Val{}, false
	}
	rest := d[len("call:"):]
	i := strings.LastIndex(rest, "#")
	if i < 0 {
		return Val{}, false
	}
	callee, tail := rest[:i], rest[i+1:]
	if strings.HasPrefix(callee, "self$") {
		callee = baseKey(fn) + callee[4:] // a closure of the recorded function itself
	}
	idx := -1
	if j := strings.Index(tail, "."); j >= 0 {
		if _, err := fmt.Sscan(tail[j+1:], &idx); err != nil {
			return Val{}, false
		}
		tail = tail[:j]
	}
	if tail != "0" {
		return Val{}, false // not the first call of that callee: which one it is cannot be told from here
	}
	// there must have been exactly one call of that callee in the recorded function
	for _, od := range loadBaseNames()[baseKey(fn)] {
		if strings.Contains(od, "call:"+callee+"#1") || strings.Contains(od, "call:self"+strings.TrimPrefix(callee, baseKey(fn))+"#1") {
			return Val{}, false
		}
	}
	v, ok := st.meta["ret:"+callee]
	if !ok {
		for k := range st.meta {
			if strings.HasPrefix(k, "ret:") && movedName(k[4:]) == callee {
				v, ok = st.meta[k], true
			}
		}
	}
	if !ok {
		return Val{}, false // (the caller falls back to an unconstrained value: movedCallResultType)
	}
	if idx >= 0 {
		if idx < len(v.Tup) {
			return v.Tup[idx], true
		}
		return Val{}, false
	}
	if len(v.Tup) > 0 {
		return Val{}, false
	}
	return v, true
}

// movedCallResultType: the type of such a local, found at any call site of the callee in the function's
// package -- for paths on which the call did not happen (the local is then an arbitrary value, exactly
// as a declared-but-unbound local is).
func movedCallResultType(fn *ssa.Function, name string) types.Type {
	if fn == nil || fn.Pkg == nil || os.Getenv("GVC_NO_RENAME") != "" {
		return nil
	}
	d, ok := loadBaseNames()[baseKey(fn)][name]
	if !ok || strings.Contains(d, " | ") || !strings.HasPrefix(d, "call:") {
		return nil
	}
	if _, still := currentNames(fn)[name]; still {
		return nil
	}
	rest := d[len("call:"):]
	i := strings.LastIndex(rest, "#")
	if i < 0 {
		return nil
	}
	callee, tail := rest[:i], rest[i+1:]
	if strings.HasPrefix(callee, "self$") {
		callee = baseKey(fn) + callee[4:]
	}
	idx := -1
	if j := strings.Index(tail, "."); j >= 0 {
		fmt.Sscan(tail[j+1:], &idx)
	}
	var found types.Type
	visit := func(f *ssa.Function) {
		for _, b := range f.Blocks {
			for _, in := range b.Instrs {
				c, ok := in.(*ssa.Call)
				if !ok || found != nil {
					continue
				}
				n := staticCalleeName(c.Common())
				if n == "" && c.Common().IsInvoke() {
					n = "(" + shortPkgType(c.Common().Value.Type()) + ")." + c.Common().Method.Name()
				}
				if stripTypeArgs(n) != callee && movedName(n) != callee {
					continue
				}
				res := c.Common().Signature().Results()
				switch {
				case idx < 0 && res.Len() == 1:
					found = res.At(0).Type()
				case idx >= 0 && idx < res.Len():
					found = res.At(idx).Type()
				}
			}
		}
	}
	for _, m := range fn.Pkg.Members {
		if f, ok := m.(*ssa.Function); ok {
			visit(f)
			for _, an := range f.AnonFuncs {
				visit(an)
			}
		}
		if t, ok := m.(*ssa.Type); ok {
			for _, ptr := range []types.Type{t.Type(), types.NewPointer(t.Type())} {
				ms := fn.Prog.MethodSets.MethodSet(ptr)
				for k := 0; k < ms.Len(); k++ {
					if mf := fn.Prog.MethodValue(ms.At(k)); mf != nil && mf.Pkg == fn.Pkg {
						visit(mf)
					}
				}
			}
		}
	}
	return found
}

// ---------- a function under contract that moved ----------

var (
	retargetMu sync.Mutex
	retargeted = map[*ssa.Function]string{} // current function -> the recorded name its contract is written for
	retargetInputs = map[*ssa.Function]map[string]string{} // ... and its inputs that were renamed on the way
	inputRen       = map[*ssa.Function]map[string]string{}
)

func baseKey(fn *ssa.Function) string {
	retargetMu.Lock()
	defer retargetMu.Unlock()
	if n, ok := retargeted[fn]; ok {
		return n
	}
	return CanonName(fn)
}

// retargetFunc: the function a contract names no longer exists (typically a closure `f$1` whose
// enclosing lines were moved into a helper, so that it is now `helper$1`). If exactly one function of the
// same package that did not exist when the ledger was recorded has the same locals with the same
// definitions as the recorded function, the contract is checked against that one -- under the recorded
// name, so the obligations are the ones the ledger knows.
func retargetFunc(P *Program, name string) *ssa.Function {
	if os.Getenv("GVC_NO_RENAME") != "" {
		return nil
	}
	pkgOf := func(n string) string {
		if i := strings.Index(n, ".("); i > 0 {
			return n[:i]
		}
		if i := strings.LastIndex(stripTypeArgs(n), "."); i > 0 {
			return n[:i]
		}
		return ""
	}
	base := loadBaseNames()[name]
	var cands []*ssa.Function
	pool := reachablePool(P, pkgOf(name))
	// a function that was renamed (applyFuncRenames) and is only reachable through calls -- an instance of
	// a generic function -- already answers to the recorded name
	// (its one instance, when it is generic: a contract on a generic function is checked on its instances)
	var inst []*ssa.Function
	for n, fn := range pool {
		if strings.HasPrefix(n, name+"[") && !strings.Contains(n[len(name):], "$") {
			inst = append(inst, fn)
		}
	}
	if os.Getenv("GVC_TRACE_RETARGET") != "" {
		var ks []string
		for n := range pool {
			if strings.Contains(n, "reorder") {
				ks = append(ks, n)
			}
		}
		fmt.Fprintf(os.Stderr, "retarget %s: instances=%d pool~%v\n", name, len(inst), ks)
	}
	if len(inst) == 1 {
		return inst[0]
	}
	if fn, ok := pool[name]; ok && fn.TypeParams().Len() == 0 {
		return fn
	}
	// a method whose receiver went from value to pointer or back is the same method: same name, same
	// parameters after the receiver, same results, and no method of that name on the other receiver form
	if alt := toggleReceiver(name); alt != "" {
		if fn, ok := pool[alt]; ok && fn.TypeParams().Len() == 0 && len(fn.Blocks) > 0 {
			if _, both := pool[name]; !both && sameSigBut(fn, loadBaseNames()["__params__"][name]) {
				retargetMu.Lock()
				retargeted[fn] = name
				retargetMu.Unlock()
				return fn
			}
		}
	}
	if len(base) == 0 {
		return nil
	}
	for n, fn := range pool {
		if !isNewHelper(n, fn) {
			continue
		}
		cur := funcNameTable(fn)
		if os.Getenv("GVC_TRACE_RETARGET") != "" {
			fmt.Fprintf(os.Stderr, "retarget %s: candidate %s %v\n", name, n, cur)
		}
		if sameTables(inputsAligned(base, cur), cur) {
			cands = append(cands, fn)
			continue
		}
		// the inputs may have been given new names on the way (a captured `creator` that is now the
		// parameter `address`): the tables must coincide under one renaming of the inputs
		if ren := inputRenaming(base, cur); ren != nil {
			cands = append(cands, fn)
			inputRen[fn] = ren
		}
	}
	if len(cands) != 1 {
		return nil
	}
	retargetMu.Lock()
	retargeted[cands[0]] = name
	if ren := inputRen[cands[0]]; ren != nil {
		retargetInputs[cands[0]] = ren
	}
	retargetMu.Unlock()
	return cands[0]
}

func sameTables(a, b map[string]string) bool {
	if len(a) != len(b) {
		return false
	}
	for k, v := range a {
		if b[k] != v {
			return false
		}
	}
	return true
}

// inputRenaming: recorded input name -> current input name, when the recorded table and the current one
// coincide under exactly one renaming of those inputs whose names differ.
func inputRenaming(base, cur map[string]string) map[string]string {
	isInput := func(d string) bool {
		if parts := strings.Split(d, " | "); len(parts) == 2 && parts[1] == "load("+parts[0]+")" {
			d = parts[0]
		}
		if strings.ContainsAny(d, "(|, ") {
			return false
		}
		return strings.HasPrefix(d, "param#") || strings.HasPrefix(d, "free#")
	}
	var bo, co []string
	for n, d := range base {
		if _, ok := cur[n]; !ok && isInput(d) {
			bo = append(bo, n)
		}
	}
	for n, d := range cur {
		if _, ok := base[n]; !ok && isInput(d) {
			co = append(co, n)
		}
	}
	if len(bo) == 0 || len(bo) != len(co) || len(bo) > 4 {
		return nil
	}
	sort.Strings(bo)
	sort.Strings(co)
	var found map[string]string
	count := 0
	var rec func(k int, used []bool, pick []int)
	rec = func(k int, used []bool, pick []int) {
		if k == len(bo) {
			b2 := map[string]string{}
			ren := map[string]string{}
			for n, d := range base {
				b2[n] = d
			}
			for i, j := range pick {
				b2[co[j]] = base[bo[i]]
				delete(b2, bo[i])
				ren[bo[i]] = co[j]
			}
			if sameTables(inputsAligned(b2, cur), cur) {
				count++
				found = ren
			}
			return
		}
		for j := range co {
			if !used[j] {
				used[j] = true
				rec(k+1, used, append(pick, j))
				used[j] = false
			}
		}
	}
	rec(0, make([]bool, len(co)), nil)
	if count == 1 {
		return found
	}
	return nil
}

// movedLocal: a local of the recorded function under contract (base key `top`) that now lives in the
// extracted helper fn: the helper's one local with the same definition.
func movedLocal(fn *ssa.Function, top string, name string) string {
	if fn == nil || os.Getenv("GVC_NO_RENAME") != "" {
		return ""
	}
	base := loadBaseNames()[top]
	want, ok := base[name]
	if !ok || want == "" {
		return ""
	}
	cur := currentNames(fn)
	if _, same := cur[name]; same {
		return ""
	}
	var cands []string
	for n, d := range cur {
		if d == want {
			cands = append(cands, n)
		}
	}
	if len(cands) == 1 {
		return cands[0]
	}
	return ""
}

var (
	movedOnce sync.Map // *Program -> map[string]string
)

// movedContracts: current name -> recorded name, for every contract whose function no longer exists under
// its recorded name but was found again by retargetFunc.
func movedContracts(P *Program) map[string]string {
	if m, ok := movedOnce.Load(P); ok {
		return m.(map[string]string)
	}
	out := map[string]string{}
	if os.Getenv("GVC_NO_RENAME") == "" && len(loadBaseNames()) > 0 {
		var names []string
		for n := range P.Contracts {
			names = append(names, n)
		}
		sort.Strings(names)
		for _, n := range names {
			if P.FindFunc(n) != nil || strings.HasPrefix(n, "__") {
				continue
			}
			if _, recorded := loadBaseNames()[n]; !recorded {
				continue
			}
			if fn := retargetFunc(P, n); fn != nil {
				out[CanonName(fn)] = n
			}
		}
	}
	movedOnce.Store(P, out)
	return out
}

// inputsAligned rewrites the recorded table so that an input of the recorded function (parameter or
// captured variable) is described the way the candidate describes its input of the same name: a closure
// that became a function takes as parameters what it used to capture.
func inputsAligned(base, cur map[string]string) map[string]string {
	isInput := func(d string) bool {
		if strings.ContainsAny(d, "(|, ") {
			return false
		}
		return strings.HasPrefix(d, "param#") || strings.HasPrefix(d, "free#")
	}
	sub := map[string]string{}
	whole := map[string]string{}
	for n, bd := range base {
		cd, ok := cur[n]
		if !ok {
			continue
		}
		if isInput(bd) && isInput(cd) && bd != cd {
			sub[bd] = cd
		}
		// a captured variable is an address: the closure read it through a load
		if parts := strings.Split(bd, " | "); len(parts) == 2 && isInput(parts[0]) && parts[1] == "load("+parts[0]+")" && isInput(cd) {
			sub[parts[1]] = cd
			whole[n] = cd
		}
	}
	if len(sub) == 0 {
		return base
	}
	var keys []string
	for k := range sub {
		keys = append(keys, k)
	}
	sort.Slice(keys, func(i, j int) bool { return len(keys[i]) > len(keys[j]) })
	out := map[string]string{}
	for n, d := range base {
		// two-phase replacement so that a swap (free#0 -> param#1, param#1 -> ...) cannot chain
		for i, k := range keys {
			d = strings.ReplaceAll(d, k, fmt.Sprintf("\x00%d\x00", i))
		}
		for i, k := range keys {
			d = strings.ReplaceAll(d, fmt.Sprintf("\x00%d\x00", i), sub[k])
		}
		out[n] = d
		if w, ok := whole[n]; ok {
			out[n] = w
		}
	}
	return out
}

// movedName: the recorded name of a function that moved, else the name itself.
func movedName(cur string) string {
	retargetMu.Lock()
	defer retargetMu.Unlock()
	for fn, old := range retargeted {
		if CanonName(fn) == cur {
			return old
		}
	}
	return cur
}

// ---------- renamed functions ----------

var funcRenames sync.Map // *ssa.Function (or its generic origin) -> recorded canonical name

func inModule(fn *ssa.Function) bool {
	var pkg *ssa.Package
	for f, i := fn, 0; f != nil && pkg == nil && i < 6; i++ {
		pkg = f.Pkg
		if pkg == nil && f.Origin() != nil {
			pkg = f.Origin().Pkg
		}
		f = f.Parent()
	}
	return pkg != nil && strings.HasPrefix(pkg.Pkg.Path(), ModPath)
}

// recordedFuncName: the recorded canonical name of a top-level function that was renamed, else "".
func recordedFuncName(fn *ssa.Function) string {
	if fn == nil || fn.Parent() != nil {
		return ""
	}
	if v, ok := funcRenames.Load(fn); ok {
		return v.(string)
	}
	if o := fn.Origin(); o != nil {
		if v, ok := funcRenames.Load(o); ok {
			// an instance: recorded generic name plus this instance's type arguments
			if i := strings.Index(fn.Name(), "["); i > 0 {
				return v.(string) + fn.Name()[i:]
			}
			return v.(string)
		}
	}
	return ""
}

// funcSig fingerprints a function by what does not depend on any name chosen inside it or for it: its
// signature and the definitions of its locals.
func funcSig(fn *ssa.Function) string {
	t := funcNameTable(fn)
	var ks []string
	for k, v := range t {
		// the definitions of the locals, not their names: a function may be renamed together with its
		// parameters and locals
		if strings.HasPrefix(k, "__") {
			ks = append(ks, k+"="+v)
		} else {
			ks = append(ks, v)
		}
	}
	sort.Strings(ks)
	var ps []string
	for _, p := range fn.Params {
		ps = append(ps, p.Type().String()) // the receiver is the first parameter: a method and the plain function it was turned into agree
	}
	h := sha1.Sum([]byte(strings.Join(ps, ",") + "->" + fn.Signature.Results().String() + "\n" + strings.Join(ks, "\n")))
	return hex.EncodeToString(h[:8])
}

func pkgOfCanon(n string) string {
	n = stripTypeArgs(n)
	if i := strings.Index(n, ".("); i > 0 {
		return n[:i]
	}
	if i := strings.LastIndex(n, "."); i > 0 {
		return n[:i]
	}
	return ""
}

// applyFuncRenames: a top-level function of a recorded package that did not exist when the ledger was
// recorded, while exactly one recorded function of the same package with the same fingerprint no longer
// exists, is that function under a new name. From here on it answers to the recorded name: contracts,
// guards, call counts and the ledger are all written in recorded names.
func applyFuncRenames(P *Program) {
	if os.Getenv("GVC_NO_RENAME") != "" {
		return
	}
	base := loadBaseNames()
	sigs := base["__sigs__"]
	if len(sigs) == 0 {
		return
	}
	cur := map[string]bool{}
	loadedPkg := map[string]bool{}
	for n := range P.Funcs {
		cur[n] = true
		loadedPkg[pkgOfCanon(n)] = true
	}
	missing := map[string][]string{} // package -> recorded names that are gone
	for n := range sigs {
		if !cur[n] && loadedPkg[pkgOfCanon(n)] && !strings.Contains(n, "$") {
			missing[pkgOfCanon(n)] = append(missing[pkgOfCanon(n)], n)
		}
	}
	if len(missing) == 0 {
		return
	}
	all := map[string]*ssa.Function{}
	for n, fn := range P.Funcs {
		all[n] = fn
	}
	for pkg := range missing {
		for n, fn := range reachablePool(P, pkg) {
			if _, ok := all[n]; !ok {
				all[n] = fn // instances of generic functions reached through calls only
			}
		}
	}
	var names []string
	for n := range all {
		names = append(names, n)
	}
	sort.Strings(names)
	renamed := false
	used := map[string]bool{}
	for _, n := range names {
		fn := all[n]
		if fn == nil || fn.Parent() != nil || len(fn.Blocks) == 0 || !inModule(fn) {
			continue
		}
		if _, known := sigs[n]; known {
			continue
		}
		cands := missing[pkgOfCanon(n)]
		if len(cands) == 0 {
			continue
		}
		sig := funcSig(fn)
		if os.Getenv("GVC_TRACE_RENAMEFN") != "" {
			fmt.Fprintf(os.Stderr, "renamefn: new %s sig=%s candidates=%v\n", n, sig, cands)
			if tb, _ := json.Marshal(funcNameTable(fn)); len(cands) == 1 {
				fmt.Fprintf(os.Stderr, "renamefn-table: %s %s\n", fn.Signature.String(), tb)
			}
		}
		var hit []string
		for _, c := range cands {
			// a method stays a method of the same receiver; instances match instances
			sameKind := recvPart(c) == recvPart(n) || recvPart(c) == "" || recvPart(n) == "" // a method may have become a function or the reverse (the fingerprint covers the receiver's type)
			if sigs[c] == sig && !used[c] && sameKind && typeArgsOf(c) == typeArgsOf(n) {
				hit = append(hit, c)
			}
		}
		if len(hit) != 1 {
			continue
		}
		used[hit[0]] = true
		key := fn
		old := hit[0]
		if o := fn.Origin(); o != nil {
			key = o
			old = stripTypeArgs(old)
		}
		funcRenames.Store(key, old)
		renamed = true
	}
	if !renamed {
		return
	}
	re := map[string]*ssa.Function{}
	for _, fn := range P.Funcs {
		re[CanonName(fn)] = fn
	}
	P.Funcs = re
}

func recvPart(n string) string {
	n = stripTypeArgs(n)
	if i := strings.Index(n, ".("); i > 0 {
		if j := strings.Index(n[i:], ")."); j > 0 {
			return n[i : i+j+1]
		}
	}
	return ""
}

func typeArgsOf(n string) string {
	if i := strings.Index(n, "["); i > 0 && strings.HasSuffix(n, "]") {
		return n[i:]
	}
	return ""
}

// structKey: a struct's field types in order (the key) and its field names in order.
func structKey(st *types.Struct) (string, string) {
	var ts, ns []string
	for i := 0; i < st.NumFields(); i++ {
		ts = append(ts, st.Field(i).Type().String())
		ns = append(ns, st.Field(i).Name())
	}
	h := sha1.Sum([]byte(strings.Join(ts, ";")))
	return hex.EncodeToString(h[:8]), strings.Join(ns, ",")
}

// recordedFieldIndex: the position the field `name` had in the recorded struct that st is, when st no
// longer has a field of that name (a renamed field), else -1. The recorded struct is the one with the same
// number of fields whose names agree with st's position by position in all but at most two places (types
// are not compared: an instance of a generic struct prints them differently); it must be the only such one.
func recordedFieldIndex(st *types.Struct, name string) int {
	if os.Getenv("GVC_NO_RENAME") != "" || st.NumFields() < 2 {
		return -1
	}
	n := st.NumFields()
	best, bestAgree, ties := -1, -1, 0
	var bestNames []string
	k := 0
	for _, rec := range loadBaseNames()["__fields__"] {
		k++
		if rec == "!ambiguous" {
			continue
		}
		names := strings.Split(rec, ",")
		if len(names) != n {
			continue
		}
		at := -1
		agree := 0
		for i, rn := range names {
			if rn == st.Field(i).Name() {
				agree++
			} else if rn == name {
				at = i
			}
		}
		if at < 0 || agree < n-2 || (n < 4 && agree < n-1) {
			continue
		}
		switch {
		case agree > bestAgree:
			best, bestAgree, ties, bestNames = at, agree, 1, names
		case agree == bestAgree && (at != best || strings.Join(names, ",") != strings.Join(bestNames, ",")):
			ties++
		}
	}
	if best >= 0 && ties == 1 {
		return best
	}
	return -1
}

func countLoops(fn *ssa.Function) int {
	heads := map[int]bool{}
	for _, b := range fn.Blocks {
		for _, succ := range b.Succs {
			if succ.Dominates(b) {
				heads[succ.Index] = true
			}
		}
	}
	return len(heads)
}

// recordedLoops: how many loops the recorded function had (-1: not recorded).
func recordedLoops(key string) int {
	t := loadBaseNames()[key]
	if t == nil {
		return -1
	}
	n := -1
	fmt.Sscan(t["__loops__"], &n)
	return n
}

// recordedCalls: how many call sites matching pat the recorded function had (-1: not recorded).
func recordedCalls(key, pat string) int {
	t := loadBaseNames()[key]
	if t == nil {
		return -1
	}
	if _, ok := t["__calls__"]; !ok {
		return -1
	}
	total := 0
	for _, e := range strings.Split(t["__calls__"], ";") {
		i := strings.LastIndex(e, "=")
		if i < 0 {
			continue
		}
		callee := e[:i]
		if strings.HasPrefix(callee, "self$") {
			callee = key + callee[4:]
		}
		n := 0
		fmt.Sscan(e[i+1:], &n)
		if matchCallee(pat, callee) {
			total += n
		}
	}
	return total
}

// recordedParamIndex: where the parameter that was i-th in the recorded function `name` sits in the
// current function fn (receiver first), or i itself when nothing is recorded or the names do not tell.
func recordedParamIndex(name string, fn *ssa.Function, i int) int {
	if fn == nil || os.Getenv("GVC_NO_RENAME") != "" {
		return i
	}
	rec, ok := loadBaseNames()["__params__"][name]
	if !ok {
		rec, ok = loadBaseNames()["__params__"][stripTypeArgs(name)] // an instance: the generic function's names
	}
	if !ok {
		return i
	}
	names := strings.Split(rec, ",")
	if i >= len(names) || names[i] == "" || names[i] == "_" {
		return i
	}
	if i < len(fn.Params) && fn.Params[i].Name() == names[i] {
		return i
	}
	// the recorded names must all still be there (a permutation, possibly with additions)
	at := -1
	for j, p := range fn.Params {
		if p.Name() == names[i] {
			at = j
		}
	}
	if at < 0 {
		return i
	}
	for _, rn := range names {
		found := false
		for _, p := range fn.Params {
			if p.Name() == rn {
				found = true
			}
		}
		if !found {
			return i // a rename rather than a reordering: positions are kept
		}
	}
	return at
}

// recordedConst: the current name of a package-level constant that was called `name` in package rel when
// the ledger was recorded and no longer exists: the one constant of that package that has its value and
// is not itself a recorded name.
func recordedConst(pkg *ssa.Package, name string) *ssa.NamedConst {
	if pkg == nil || os.Getenv("GVC_NO_RENAME") != "" {
		return nil
	}
	rel := strings.TrimPrefix(pkg.Pkg.Path(), ModPath+"/")
	consts := loadBaseNames()["__consts__"]
	want, ok := consts[rel+"."+name]
	if !ok {
		return nil
	}
	if _, still := pkg.Members[name]; still {
		return nil
	}
	var hit *ssa.NamedConst
	n := 0
	for cn, m := range pkg.Members {
		c, ok := m.(*ssa.NamedConst)
		if !ok || c.Value == nil || c.Value.Value == nil || c.Value.Value.ExactString() != want {
			continue
		}
		if _, recorded := consts[rel+"."+cn]; recorded {
			continue
		}
		hit = c
		n++
	}
	if n == 1 {
		return hit
	}
	return nil
}

// reachablePool: the functions of package pkg, plus what they call or create that the program's function
// table does not list (instances of generic functions and their closures), by canonical name.
func reachablePool(P *Program, pkg string) map[string]*ssa.Function {
	pkgOf := func(n string) string {
		if i := strings.Index(n, ".("); i > 0 {
			return n[:i]
		}
		if i := strings.LastIndex(stripTypeArgs(n), "."); i > 0 {
			return n[:i]
		}
		return ""
	}
	pool := map[string]*ssa.Function{}
	var addFn func(fn *ssa.Function, depth int)
	addFn = func(fn *ssa.Function, depth int) {
		if fn == nil || len(fn.Blocks) == 0 || depth > 3 {
			return
		}
		n := CanonName(fn)
		if _, ok := pool[n]; ok {
			return
		}
		if pkgOf(n) != pkg {
			return
		}
		pool[n] = fn
		for _, an := range fn.AnonFuncs {
			addFn(an, depth+1)
		}
		for _, b := range fn.Blocks {
			for _, in := range b.Instrs {
				if c, ok := in.(ssa.CallInstruction); ok {
					if f := c.Common().StaticCallee(); f != nil {
						addFn(f, depth+1)
					}
				}
			}
		}
	}
	for _, fn := range P.Funcs {
		addFn(fn, 0)
	}
	return pool
}


// recordedResultNames: the names the results of the function had when the ledger was recorded (nil when
// it named none).
func recordedResultNames(name string) []string {
	if os.Getenv("GVC_NO_RENAME") != "" {
		return nil
	}
	rec, ok := loadBaseNames()["__results__"][name]
	if !ok {
		rec, ok = loadBaseNames()["__results__"][stripTypeArgs(name)]
	}
	if !ok || rec == "" {
		return nil
	}
	return strings.Split(rec, ",")
}


// toggleReceiver: "pkg.(T).M" <-> "pkg.(*T).M" ("" for a plain function).
func toggleReceiver(name string) string {
	i := strings.Index(name, ".(")
	if i < 0 {
		return ""
	}
	j := strings.Index(name[i:], ").")
	if j < 0 {
		return ""
	}
	recv := name[i+2 : i+j]
	if strings.HasPrefix(recv, "*") {
		return name[:i+2] + recv[1:] + name[i+j:]
	}
	return name[:i+2] + "*" + recv + name[i+j:]
}

// sameSigBut: fn has the recorded parameter names (receiver first), in order.
func sameSigBut(fn *ssa.Function, recorded string) bool {
	if recorded == "" {
		return false
	}
	var ns []string
	for _, p := range fn.Params {
		ns = append(ns, p.Name())
	}
	return strings.Join(ns, ",") == recorded
}
