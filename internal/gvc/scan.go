package gvc

// SSA scans realising the F3 (effects) and F8 (census) obligation families. Each scan yields
// named obligations with status discharged / refuted, accounted like SMT obligations.

type ScanSpec struct {
	Kind string            `json:"kind"`
	Name string            `json:"name"`
	Args map[string]string `json:"args,omitempty"`
	List []string          `json:"list,omitempty"`
}

func RunScan(P *Program, sp ScanSpec) []*OblResult {
	if f, ok := scanKinds[sp.Kind]; ok {
		return f(P, sp)
	}
	return []*OblResult{{Name: "scan." + sp.Name, Family: "F8", Status: "undecided", Output: "unknown scan kind " + sp.Kind}}
}

var scanKinds = map[string]func(P *Program, sp ScanSpec) []*OblResult{}
