package gvc

// SSA scans realising the F3 (effects) and F8 (census) obligation families. Each scan yields
// named obligations with status discharged / refuted, accounted like SMT obligations.

import (
	"fmt"
	"go/types"
	"sort"
	"strings"

	"golang.org/x/tools/go/ssa"
	"golang.org/x/tools/go/ssa/ssautil"
)

type ScanSpec struct {
	Kind string            `json:"kind"`
	Name string            `json:"name"`
	Args map[string]string `json:"args,omitempty"`
	List []string          `json:"list,omitempty"`
}

func RunScan(P *Program, sp ScanSpec) []*OblResult {
	if f, ok := scanKinds[sp.Kind]; ok {
		return f(P, sp)
	}
	return []*OblResult{{Name: "scan." + sp.Name, Family: "F8", Status: "undecided", Output: "unknown scan kind " + sp.Kind}}
}

var scanKinds = map[string]func(P *Program, sp ScanSpec) []*OblResult{}

func scanResult(name, family string, ok bool, detail string) *OblResult {
	r := &OblResult{Name: "scan." + name, Family: family, Func: "scan." + name, Paths: 1, Backend: "ssa-scan", Output: detail}
	if ok {
		r.Status = "discharged"
	} else {
		r.Status = "refuted"
		r.Model = detail
	}
	return r
}

func init() {
	scanKinds["global_const_slice"] = scanGlobalConstSlice
	scanKinds["global_newint"] = scanGlobalNewInt
	scanKinds["global_const"] = scanGlobalConst
	scanKinds["defer_recover"] = scanDeferRecover
	scanKinds["forbidden_calls"] = scanForbiddenCalls
	scanKinds["value_receiver"] = scanValueReceiver
	scanKinds["map_range_order"] = scanMapRangeOrder
	scanKinds["handler_census"] = scanHandlerCensus
	scanKinds["only_callers"] = scanOnlyCallers
}

func (P *Program) ssaPkg(rel string) *ssa.Package {
	for _, p := range P.SSA.AllPackages() {
		if p.Pkg.Path() == ModPath+"/"+rel || p.Pkg.Path() == rel {
			return p
		}
	}
	return nil
}

// global_const_slice: the package variable Args[name] of package Args[pkg] is assigned exactly once,
// in the package initialiser, from a slice literal whose elements are exactly the constants in List.
// This validates `requires` clauses that state the contents of such a variable.
func scanGlobalConstSlice(P *Program, sp ScanSpec) []*OblResult {
	pkg := P.ssaPkg(sp.Args["pkg"])
	if pkg == nil {
		return []*OblResult{scanResult(sp.Name, "F8", false, "package not loaded: "+sp.Args["pkg"])}
	}
	g, ok := pkg.Members[sp.Args["name"]].(*ssa.Global)
	if !ok {
		return []*OblResult{scanResult(sp.Name, "F8", false, "no such package variable: "+sp.Args["name"])}
	}
	var stores []*ssa.Store
	var where []string
	for fn := range ssautil.AllFunctions(P.SSA) {
		if fn.Pkg != pkg && (fn.Parent() == nil || fn.Parent().Pkg != pkg) {
			continue
		}
		for _, b := range fn.Blocks {
			for _, in := range b.Instrs {
				if s, ok := in.(*ssa.Store); ok {
					if rootGlobal(s.Addr) == g {
						stores = append(stores, s)
						where = append(where, CanonName(fn))
					}
				}
			}
		}
	}
	if len(stores) != 1 || !strings.HasSuffix(where[0], ".init") {
		return []*OblResult{scanResult(sp.Name, "F8", false, fmt.Sprintf("variable %s is written at %v (want exactly one store, in init)", sp.Args["name"], where))}
	}
	// the stored value: slice of a fresh array whose cells are stored constants
	sl, ok := stores[0].Val.(*ssa.Slice)
	if !ok {
		return []*OblResult{scanResult(sp.Name, "F8", false, "initialiser is not a slice literal")}
	}
	arr, ok := sl.X.(*ssa.Alloc)
	if !ok {
		return []*OblResult{scanResult(sp.Name, "F8", false, "initialiser is not a slice literal over a fresh array")}
	}
	vals := map[int64]string{}
	for _, r := range *arr.Referrers() {
		ia, ok := r.(*ssa.IndexAddr)
		if !ok {
			continue
		}
		idx, ok := ia.Index.(*ssa.Const)
		if !ok {
			return []*OblResult{scanResult(sp.Name, "F8", false, "non-constant index in initialiser")}
		}
		for _, rr := range *ia.Referrers() {
			if st, ok := rr.(*ssa.Store); ok {
				c, ok := st.Val.(*ssa.Const)
				if !ok || c.Value == nil {
					return []*OblResult{scanResult(sp.Name, "F8", false, "non-constant element in initialiser")}
				}
				vals[idx.Int64()] = c.Value.ExactString()
			}
		}
	}
	var got []string
	for i := int64(0); i < int64(len(vals)); i++ {
		got = append(got, vals[i])
	}
	if strings.Join(got, ",") != strings.Join(sp.List, ",") {
		return []*OblResult{scanResult(sp.Name, "F8", false, fmt.Sprintf("%s = [%s], contract requires [%s]", sp.Args["name"], strings.Join(got, ","), strings.Join(sp.List, ",")))}
	}
	return []*OblResult{scanResult(sp.Name, "F8", true, fmt.Sprintf("%s = [%s], single store in init", sp.Args["name"], strings.Join(got, ",")))}
}

// global_const: the package variable Args[name] of package Args[pkg] is assigned exactly once, in the
// package initialiser, from the constant Args[value] (possibly through a type conversion). This
// validates `requires name == value` clauses.
func scanGlobalConst(P *Program, sp ScanSpec) []*OblResult {
	pkg := P.ssaPkg(sp.Args["pkg"])
	if pkg == nil {
		return []*OblResult{scanResult(sp.Name, "F8", false, "package not loaded: "+sp.Args["pkg"])}
	}
	g, ok := pkg.Members[sp.Args["name"]].(*ssa.Global)
	if !ok {
		return []*OblResult{scanResult(sp.Name, "F8", false, "no such package variable: "+sp.Args["name"])}
	}
	var stores []*ssa.Store
	var where []string
	for fn := range ssautil.AllFunctions(P.SSA) {
		for _, b := range fn.Blocks {
			for _, in := range b.Instrs {
				if s, ok := in.(*ssa.Store); ok && rootGlobal(s.Addr) == g {
					stores = append(stores, s)
					where = append(where, CanonName(fn))
				}
				// taking the address for anything but a load or a store could hide a write
				if u, ok := in.(*ssa.UnOp); ok && u.X == ssa.Value(g) {
					continue
				}
				if _, isStore := in.(*ssa.Store); !isStore {
					for _, op := range in.Operands(nil) {
						if *op == ssa.Value(g) {
							if _, isLoad := in.(*ssa.UnOp); !isLoad {
								where = append(where, CanonName(fn)+" (address escapes)")
							}
						}
					}
				}
			}
		}
	}
	if len(stores) != 1 || len(where) != 1 || !strings.HasSuffix(where[0], ".init") {
		return []*OblResult{scanResult(sp.Name, "F8", false, fmt.Sprintf("variable %s is written at %v (want exactly one store, in init)", sp.Args["name"], where))}
	}
	v := stores[0].Val
	for {
		switch c := v.(type) {
		case *ssa.Convert:
			v = c.X
			continue
		case *ssa.ChangeType:
			v = c.X
			continue
		}
		break
	}
	c, ok := v.(*ssa.Const)
	if !ok || c.Value == nil {
		return []*OblResult{scanResult(sp.Name, "F8", false, "initialiser is not a constant")}
	}
	if got := c.Value.ExactString(); got != sp.Args["value"] {
		return []*OblResult{scanResult(sp.Name, "F8", false, fmt.Sprintf("%s = %s, contract requires %s", sp.Args["name"], got, sp.Args["value"]))}
	}
	return []*OblResult{scanResult(sp.Name, "F8", true, fmt.Sprintf("%s = %s, single store in init", sp.Args["name"], sp.Args["value"]))}
}

// defer_recover: function Args[func] installs, before its first call, a deferred function that calls
// recover(); so a panic in anything it calls afterwards does not leave the function.
func scanDeferRecover(P *Program, sp ScanSpec) []*OblResult {
	fn := P.FindFunc(sp.Args["func"])
	if fn == nil || len(fn.Blocks) == 0 {
		return []*OblResult{scanResult(sp.Name, "F8", false, "function not found: "+sp.Args["func"])}
	}
	callsRecover := func(f *ssa.Function) bool {
		if f == nil {
			return false
		}
		for _, b := range f.Blocks {
			for _, in := range b.Instrs {
				if c, ok := in.(*ssa.Call); ok {
					if bi, ok := c.Call.Value.(*ssa.Builtin); ok && bi.Name() == "recover" {
						return true
					}
				}
			}
		}
		return false
	}
	for _, in := range fn.Blocks[0].Instrs {
		switch in := in.(type) {
		case *ssa.Defer:
			var f *ssa.Function
			switch v := in.Call.Value.(type) {
			case *ssa.MakeClosure:
				f, _ = v.Fn.(*ssa.Function)
			case *ssa.Function:
				f = v
			}
			if callsRecover(f) {
				return []*OblResult{scanResult(sp.Name, "F8", true, "deferred recover installed before the first call")}
			}
		case *ssa.Call:
			if _, isBuiltin := in.Call.Value.(*ssa.Builtin); !isBuiltin {
				return []*OblResult{scanResult(sp.Name, "F8", false, "a call precedes the deferred recover: "+in.String())}
			}
		}
	}
	return []*OblResult{scanResult(sp.Name, "F8", false, "no deferred recover in the entry block")}
}

// stateMachineFuncs: functions of the module's state-machine packages (prefixes in Args[scope], comma
// separated, relative to the module), leaving out CLI, simulation, mocks and test helpers.
func stateMachineFuncs(P *Program, sp ScanSpec) []*ssa.Function {
	var scope []string
	for _, s := range strings.Split(sp.Args["scope"], ",") {
		if s = strings.TrimSpace(s); s != "" {
			scope = append(scope, s)
		}
	}
	var out []*ssa.Function
	for _, name := range sortedKeys(P.Funcs) {
		fn := P.Funcs[name]
		if fn.Synthetic != "" && !strings.HasPrefix(fn.Synthetic, "instance") {
			continue // wrappers, thunks, bound methods; instantiations of generic functions stay
		}
		in := false
		for _, s := range scope {
			if strings.HasPrefix(name, s) {
				in = true
			}
		}
		if !in {
			continue
		}
		file := ""
		if fn.Pos().IsValid() && P.Fset != nil {
			file = P.Fset.Position(fn.Pos()).Filename
		} else if fn.Parent() != nil && fn.Parent().Pos().IsValid() && P.Fset != nil {
			file = P.Fset.Position(fn.Parent().Pos()).Filename
		}
		skip := false
		for _, pat := range []string{"/client/", "/simulation/", "/mocks/", "testutil", "test_utils.go", "test_common.go", ".pb.go", ".pb.gw.go", "_test.go"} {
			if strings.Contains(file, pat) {
				skip = true
			}
		}
		if !skip {
			out = append(out, fn)
		}
	}
	return out
}

// forbidden_calls: no state-machine function calls one of the listed library functions (exact
// "pkg.Func" names, or "pkg." for a whole package) except the callers in List. Sources of
// node-local information (process environment, wall clock, randomness) must not reach block
// execution.
func scanForbiddenCalls(P *Program, sp ScanSpec) []*OblResult {
	var pats []string
	for _, s := range strings.Split(sp.Args["callees"], ",") {
		if s = strings.TrimSpace(s); s != "" {
			pats = append(pats, s)
		}
	}
	allowed := map[string]bool{}
	for _, a := range sp.List {
		allowed[a] = true
	}
	var extra []string
	seen := map[string]bool{}
	for _, fn := range stateMachineFuncs(P, sp) {
		for _, b := range fn.Blocks {
			for _, in := range b.Instrs {
				var cc *ssa.CallCommon
				switch c := in.(type) {
				case *ssa.Call:
					cc = c.Common()
				case *ssa.Defer:
					cc = c.Common()
				case *ssa.Go:
					cc = c.Common()
				}
				if cc == nil {
					continue
				}
				f := cc.StaticCallee()
				if f == nil {
					continue
				}
				fpkg := f.Pkg
				if fpkg == nil && f.Origin() != nil {
					fpkg = f.Origin().Pkg // an instance of a generic function belongs to no package itself
				}
				if fpkg == nil {
					continue
				}
				full := fpkg.Pkg.Path() + "." + f.Name()
				if recv := f.Signature.Recv(); recv != nil {
					full = fpkg.Pkg.Path() + ".(" + recvTypeName(recv.Type()) + ")." + f.Name()
					full = strings.Replace(full, "(*", "(", 1)
				}
				full = stripTypeArgs(full) // instances of generic functions by their generic name
				for _, p := range pats {
					if full == p || (strings.HasSuffix(p, ".") && strings.HasPrefix(full, p)) {
						caller := CanonName(fn)
						seen[caller] = true
						if !allowed[caller] {
							extra = append(extra, caller+" calls "+full)
						}
					}
				}
			}
		}
	}
	if len(extra) > 0 {
		sort.Strings(extra)
		return []*OblResult{scanResult(sp.Name, "F8", false, strings.Join(extra, "; "))}
	}
	return []*OblResult{scanResult(sp.Name, "F8", true, fmt.Sprintf("callers: %v", sortedKeys(seen)))}
}

// map_range_order: every `range` over a map in a state-machine function is of a shape whose result
// cannot depend on the iteration order -- (a) the body only collects into a slice that the function
// sorts afterwards, or (b) the body only inserts into / deletes from / looks up maps, accumulates
// with commutative integer operations, and calls nothing -- or the function is in List (reviewed by
// hand, with the reason; such functions are under their own contracts). One obligation per function.
func scanMapRangeOrder(P *Program, sp ScanSpec) []*OblResult {
	reviewed := map[string]string{}
	for _, l := range sp.List {
		if i := strings.Index(l, ":"); i > 0 {
			reviewed[strings.TrimSpace(l[:i])] = strings.TrimSpace(l[i+1:])
		} else {
			reviewed[strings.TrimSpace(l)] = ""
		}
	}
	var out []*OblResult
	var offenders, okFuncs []string
	for _, fn := range stateMachineFuncs(P, sp) {
		var ranges []*ssa.Range
		sorts := false
		for _, b := range fn.Blocks {
			for _, in := range b.Instrs {
				if r, ok := in.(*ssa.Range); ok {
					if _, isMap := r.X.Type().Underlying().(*types.Map); isMap {
						ranges = append(ranges, r)
					}
				}
				if c, ok := in.(*ssa.Call); ok {
					if f := c.Call.StaticCallee(); f != nil && f.Pkg != nil {
						full := f.Pkg.Pkg.Path() + "." + f.Name()
						if strings.HasPrefix(full, "sort.") || strings.HasPrefix(full, "slices.Sort") {
							sorts = true
						}
					}
				}
			}
		}
		if len(ranges) == 0 {
			continue
		}
		name := CanonName(fn)
		oname := sp.Name + "." + name
		if _, ok := reviewed[name]; ok {
			continue // reported below, whether or not the function still iterates over a map
		}
		lt := NewExec(P, DefaultConfig()).loopsOf(fn)
		bad := ""
		for _, r := range ranges {
			// the loop whose head consumes this iterator
			var body map[int]bool
			for _, ld := range lt.order {
				for _, in := range ld.header.Instrs {
					if n, ok := in.(*ssa.Next); ok && n.Iter == ssa.Value(r) {
						body = ld.body
					}
				}
			}
			if body == nil {
				bad = "loop of the range not found"
				break
			}
			appends, other := false, ""
			for bi := range body {
				for _, in := range fn.Blocks[bi].Instrs {
					switch in := in.(type) {
					case *ssa.Next, *ssa.Extract, *ssa.If, *ssa.Jump, *ssa.Phi, *ssa.DebugRef, *ssa.Lookup, *ssa.MapUpdate,
						*ssa.BinOp, *ssa.UnOp, *ssa.FieldAddr, *ssa.Field, *ssa.IndexAddr, *ssa.Index, *ssa.Alloc, *ssa.Slice,
						*ssa.Convert, *ssa.ChangeType, *ssa.MakeInterface, *ssa.MakeMap, *ssa.Store:
						if st, ok := in.(*ssa.Store); ok {
							// stores into fresh local allocations (composite literals, varargs) only
							if rootAlloc(st.Addr) == nil {
								other = "store through " + st.Addr.String()
							}
						}
					case *ssa.Call:
						if b, ok := in.Call.Value.(*ssa.Builtin); ok {
							switch b.Name() {
							case "append":
								appends = true
							case "delete", "len", "cap":
							default:
								other = "builtin " + b.Name()
							}
						} else if f := in.Call.StaticCallee(); f != nil && f.Pkg != nil && (f.Pkg.Pkg.Path() == "fmt" && strings.HasPrefix(f.Name(), "Sprint") || f.Pkg.Pkg.Path() == "strings" || f.Pkg.Pkg.Path() == "strconv") {
							// value-level library functions
						} else {
							other = "call " + in.Call.String()
						}
					case *ssa.Return:
						other = "return inside the loop"
					default:
						other = fmt.Sprintf("%T", in)
					}
				}
			}
			if other != "" {
				bad = other
				break
			}
			if appends && !sorts {
				bad = "collects into a slice that is never sorted"
				break
			}
		}
		if bad != "" {
			out = append(out, scanResult(oname, "F8", false, "map iteration whose effect may depend on the order: "+bad))
			offenders = append(offenders, name+" ("+bad+")")
		} else {
			okFuncs = append(okFuncs, name)
		}
	}
	// a reviewed function keeps its obligation for as long as it is listed: moving its iteration into
	// a helper (whose shape is then judged on its own) does not make the obligation disappear
	for _, name := range sortedKeys(reviewed) {
		out = append(out, scanResult(sp.Name+"."+name, "F8", true, "reviewed: "+reviewed[name]))
	}
	// the census as a whole: an obligation that exists (and holds) on every tree, so that a map
	// iteration appearing in a function that had none before fails something the ledger knows
	sort.Strings(offenders)
	out = append(out, scanResult(sp.Name+".every_map_iteration_in_block_execution", "F8", len(offenders) == 0,
		fmt.Sprintf("map iterations whose effect may depend on the order: %v; collect-then-sort or commutative bodies: %v", offenders, okFuncs)))
	return out
}

// value_receiver: method Args[func] has a value receiver, so assignments to the receiver's fields
// inside it are lost when it returns (no state survives the call).
func scanValueReceiver(P *Program, sp ScanSpec) []*OblResult {
	fn := P.FindFunc(sp.Args["func"])
	if fn == nil || fn.Signature.Recv() == nil {
		return []*OblResult{scanResult(sp.Name, "F8", false, "method not found: "+sp.Args["func"])}
	}
	if _, isPtr := fn.Signature.Recv().Type().Underlying().(*types.Pointer); isPtr {
		return []*OblResult{scanResult(sp.Name, "F8", false, "pointer receiver: writes to the receiver survive the call")}
	}
	return []*OblResult{scanResult(sp.Name, "F8", true, "value receiver")}
}

func rootGlobal(v ssa.Value) *ssa.Global {
	for {
		switch a := v.(type) {
		case *ssa.Global:
			return a
		case *ssa.FieldAddr:
			v = a.X
		case *ssa.IndexAddr:
			v = a.X
		default:
			return nil
		}
	}
}

// global_newint: package variable Args[name] is assigned exactly once, in init, the result of
// math.NewInt(<List[0]>). Validates requires clauses that state such a variable's value.
func scanGlobalNewInt(P *Program, sp ScanSpec) []*OblResult {
	pkg := P.ssaPkg(sp.Args["pkg"])
	if pkg == nil {
		return []*OblResult{scanResult(sp.Name, "F8", false, "package not loaded: "+sp.Args["pkg"])}
	}
	g, ok := pkg.Members[sp.Args["name"]].(*ssa.Global)
	if !ok {
		return []*OblResult{scanResult(sp.Name, "F8", false, "no such package variable: "+sp.Args["name"])}
	}
	var found []string
	for fn := range ssautil.AllFunctions(P.SSA) {
		for _, b := range fn.Blocks {
			for _, in := range b.Instrs {
				s, ok := in.(*ssa.Store)
				if !ok || rootGlobal(s.Addr) != g {
					continue
				}
				desc := CanonName(fn) + ": ?"
				if call, ok := s.Val.(*ssa.Call); ok {
					if f := call.Call.StaticCallee(); f != nil && len(call.Call.Args) == 1 {
						if c, ok := call.Call.Args[0].(*ssa.Const); ok && c.Value != nil {
							desc = fmt.Sprintf("%s: %s(%s)", fn.Name(), CanonName(f), c.Value.ExactString())
						}
					}
				}
				found = append(found, desc)
			}
		}
	}
	want := fmt.Sprintf("init: cosmossdk.io/math.NewInt(%s)", sp.List[0])
	if len(found) == 1 && found[0] == want {
		return []*OblResult{scanResult(sp.Name, "F8", true, sp.Args["name"]+" = "+want)}
	}
	return []*OblResult{scanResult(sp.Name, "F8", false, fmt.Sprintf("%s is written by %v, contract requires exactly [%s]", sp.Args["name"], found, want))}
}

// handler_census (C03): every method of every generated MsgServer interface implemented by a
// `msgServer` type in the loaded keeper packages is a message handler and must carry a contract with
// exactly one authorisation tag — principal / governance / self_authenticating / stateless — and, for
// principal and governance, at least one guard labelled C03_principal… / C03_governance… that ties
// the state change to the message creator / the governance authority. A new message type therefore
// fails the census until it is classified and its guard is proved.
func scanHandlerCensus(P *Program, sp ScanSpec) []*OblResult {
	var out []*OblResult
	seen := 0
	for _, pkg := range P.SSAPkgs {
		if pkg == nil {
			continue
		}
		obj := pkg.Pkg.Scope().Lookup("msgServer")
		if obj == nil {
			continue
		}
		// the MsgServer interface of the module's types package
		var iface *types.Interface
		for _, imp := range pkg.Pkg.Imports() {
			// the module's own types package: x/<mod>/keeper -> x/<mod>/types
			if imp.Path() != strings.TrimSuffix(pkg.Pkg.Path(), "/keeper")+"/types" {
				continue
			}
			if o := imp.Scope().Lookup("MsgServer"); o != nil {
				if it, ok := o.Type().Underlying().(*types.Interface); ok {
					iface = it
				}
			}
		}
		if iface == nil {
			continue
		}
		rel := strings.TrimPrefix(pkg.Pkg.Path(), ModPath+"/")
		for i := 0; i < iface.NumMethods(); i++ {
			m := iface.Method(i).Name()
			seen++
			name := fmt.Sprintf("%s.handler.%s.%s", sp.Name, rel, m)
			var c *Contract
			for _, recv := range []string{"(msgServer).", "(*msgServer)."} {
				if cc, ok := P.Contracts[rel+"."+recv+m]; ok {
					c = cc
				}
			}
			if c == nil {
				out = append(out, scanResult(name, "F8", false, "handler has no contract (no authorisation tag)"))
				continue
			}
			var tags []string
			for _, t := range []string{"principal", "governance", "self_authenticating", "stateless"} {
				if _, ok := c.Flags[t]; ok {
					tags = append(tags, t)
				}
			}
			if len(tags) != 1 {
				out = append(out, scanResult(name, "F8", false, fmt.Sprintf("handler must carry exactly one authorisation tag, has %v", tags)))
				continue
			}
			need := ""
			switch tags[0] {
			case "principal":
				need = "C03_principal"
			case "governance":
				need = "C03_governance"
			case "self_authenticating":
				need = "C03_self"
			}
			ok := need == ""
			for _, cl := range c.Clauses {
				if (cl.Kind == "guard" || cl.Kind == "ensures") && strings.Contains(cl.Label, need) {
					ok = true
				}
			}
			if !ok {
				out = append(out, scanResult(name, "F8", false, "tag "+tags[0]+" without a guard labelled "+need+"…"))
				continue
			}
			out = append(out, scanResult(name, "F8", true, tags[0]+": "+c.Flags[tags[0]]))
		}
	}
	if seen == 0 {
		out = append(out, scanResult(sp.Name+".handlers_found", "F8", false, "no MsgServer implementation found in the loaded packages"))
	}
	return out
}

// only_callers (F8 writers census): the static callers of function Args[callee] (canonical name) in
// the loaded packages are exactly the functions in List.
func scanOnlyCallers(P *Program, sp ScanSpec) []*OblResult {
	callee := sp.Args["callee"]
	found := map[string]bool{}
	exists := false
	for fn := range ssautil.AllFunctions(P.SSA) {
		if CanonName(fn) == callee || stripTypeArgs(CanonName(fn)) == callee {
			exists = true
		}
		if fn.Synthetic != "" && !strings.HasPrefix(fn.Synthetic, "instance") {
			continue // compiler-made wrappers (pointer-receiver thunks, bound methods)
		}
		for _, b := range fn.Blocks {
			for _, in := range b.Instrs {
				var cc *ssa.CallCommon
				switch c := in.(type) {
				case *ssa.Call:
					cc = c.Common()
				case *ssa.Defer:
					cc = c.Common()
				case *ssa.Go:
					cc = c.Common()
				}
				if cc == nil {
					continue
				}
				if f := cc.StaticCallee(); f != nil {
					n := CanonName(f)
					if f.Synthetic != "" && !strings.HasPrefix(f.Synthetic, "instance") {
						n = strings.Replace(n, "(*", "(", 1) // pointer-receiver thunk of a value method
					}
					if n == callee || (!strings.Contains(callee, "[") && stripTypeArgs(n) == callee) {
						found[stripTypeArgs(CanonName(fn))] = true
					}
				}
			}
		}
	}
	if !exists {
		return []*OblResult{scanResult(sp.Name, "F8", false, "function not found: "+callee)}
	}
	want := map[string]bool{}
	for _, w := range sp.List {
		want[w] = true
	}
	var extra, missing []string
	for f := range found {
		if !want[f] && !strings.Contains(f, "_test") {
			extra = append(extra, f)
		}
	}
	for w := range want {
		if !found[w] {
			missing = append(missing, w)
		}
	}
	if len(extra) > 0 {
		return []*OblResult{scanResult(sp.Name, "F8", false, fmt.Sprintf("%s is also called from %v (census lists %v)", callee, extra, sp.List))}
	}
	if len(missing) > 0 {
		return []*OblResult{scanResult(sp.Name, "F8", false, fmt.Sprintf("%s is no longer called from %v", callee, missing))}
	}
	return []*OblResult{scanResult(sp.Name, "F8", true, fmt.Sprintf("callers of %s: %v", callee, sp.List))}
}

// field_writers: the field Args[field] of the struct type Args[type] (canonical, e.g.
// x/consensus/keeper/consensus.QueueOptions) is stored to -- by assignment or in a composite
// literal -- only inside the functions in List.
func scanFieldWriters(P *Program, sp ScanSpec) []*OblResult {
	typ, field := sp.Args["type"], sp.Args["field"]
	found := map[string]bool{}
	seenType := false
	for fn := range ssautil.AllFunctions(P.SSA) {
		if fn.Synthetic != "" {
			continue
		}
		for _, b := range fn.Blocks {
			for _, in := range b.Instrs {
				fa, ok := in.(*ssa.FieldAddr)
				if !ok {
					continue
				}
				pt, ok := fa.X.Type().Underlying().(*types.Pointer)
				if !ok {
					continue
				}
				named, ok := types.Unalias(pt.Elem()).(*types.Named)
				if !ok || named.Obj().Pkg() == nil {
					continue
				}
				full := strings.TrimPrefix(named.Obj().Pkg().Path(), ModPath+"/") + "." + named.Obj().Name()
				if full != typ {
					continue
				}
				st, ok := named.Underlying().(*types.Struct)
				if !ok {
					continue
				}
				seenType = true
				if st.Field(fa.Field).Name() != field {
					continue
				}
				for _, ref := range *fa.Referrers() {
					if s, ok := ref.(*ssa.Store); ok && s.Addr == fa {
						found[CanonName(fn)] = true
					}
				}
			}
		}
	}
	if !seenType {
		return []*OblResult{scanResult(sp.Name, "F8", false, "no use of type "+typ+" found")}
	}
	want := map[string]bool{}
	for _, w := range sp.List {
		want[w] = true
	}
	var extra, missing []string
	for f := range found {
		if !want[f] && !strings.Contains(f, "_test") {
			extra = append(extra, f)
		}
	}
	for w := range want {
		if !found[w] {
			missing = append(missing, w)
		}
	}
	sort.Strings(extra)
	sort.Strings(missing)
	if len(extra) > 0 {
		return []*OblResult{scanResult(sp.Name, "F8", false, fmt.Sprintf("%s.%s is also written in %v (census lists %v)", typ, field, extra, sp.List))}
	}
	if len(missing) > 0 {
		return []*OblResult{scanResult(sp.Name, "F8", false, fmt.Sprintf("%s.%s is no longer written in %v", typ, field, missing))}
	}
	return []*OblResult{scanResult(sp.Name, "F8", true, fmt.Sprintf("writers of %s.%s: %v", typ, field, sp.List))}
}

func init() { scanKinds["field_writers"] = scanFieldWriters }

// global_users: the package variable Args[name] of package Args[pkg] (typically a store prefix or key)
// is mentioned only by the functions in List -- so the records under it have no other reader or writer.
func scanGlobalUsers(P *Program, sp ScanSpec) []*OblResult {
	pkg := P.ssaPkg(sp.Args["pkg"])
	if pkg == nil {
		return []*OblResult{scanResult(sp.Name, "F8", false, "package not loaded: "+sp.Args["pkg"])}
	}
	g, ok := pkg.Members[sp.Args["name"]].(*ssa.Global)
	if !ok {
		return []*OblResult{scanResult(sp.Name, "F8", false, "no such package variable: "+sp.Args["name"])}
	}
	found := map[string]bool{}
	for fn := range ssautil.AllFunctions(P.SSA) {
		if fn.Synthetic != "" {
			continue
		}
		for _, b := range fn.Blocks {
			for _, in := range b.Instrs {
				for _, op := range in.Operands(nil) {
					if *op == ssa.Value(g) {
						found[CanonName(fn)] = true
					}
				}
			}
		}
	}
	want := map[string]bool{}
	for _, w := range sp.List {
		want[w] = true
	}
	var extra, missing []string
	for f := range found {
		if !want[f] && !strings.Contains(f, "_test") && !strings.HasSuffix(f, ".init") {
			extra = append(extra, f)
		}
	}
	for w := range want {
		if !found[w] {
			missing = append(missing, w)
		}
	}
	sort.Strings(extra)
	sort.Strings(missing)
	if len(extra) > 0 {
		return []*OblResult{scanResult(sp.Name, "F8", false, fmt.Sprintf("%s is also used in %v (census lists %v)", sp.Args["name"], extra, sp.List))}
	}
	if len(missing) > 0 {
		return []*OblResult{scanResult(sp.Name, "F8", false, fmt.Sprintf("%s is no longer used in %v", sp.Args["name"], missing))}
	}
	return []*OblResult{scanResult(sp.Name, "F8", true, fmt.Sprintf("users of %s: %v", sp.Args["name"], sp.List))}
}

func init() { scanKinds["global_users"] = scanGlobalUsers }

// stripTypeArgs drops the type arguments of a generic instance: "p.(T).M[a.B]" -> "p.(T).M".
func stripTypeArgs(n string) string {
	if i := strings.Index(n, "["); i > 0 && strings.HasSuffix(n, "]") {
		return n[:i]
	}
	return n
}

// member_users: the field or method called Args[names] (comma separated) of a type of package
// Args[pkg] is read / called -- statically or through an interface -- only in the functions of List
// (generated *.pb.go accessors aside). Used where a statement rests on "nothing but X looks at this
// field" (C11: the event nonce of a claim is in no hash, so it must have no effect).
func scanMemberUsers(P *Program, sp ScanSpec) []*OblResult {
	pkgPath := ModPath + "/" + sp.Args["pkg"]
	names := map[string]bool{}
	for _, n := range strings.Split(sp.Args["names"], ",") {
		if n = strings.TrimSpace(n); n != "" {
			names[n] = true
		}
	}
	found := map[string]bool{}
	seen := false
	inPkg := func(p *types.Package) bool { return p != nil && p.Path() == pkgPath }
	for fn := range ssautil.AllFunctions(P.SSA) {
		if fn.Synthetic != "" && !strings.HasPrefix(fn.Synthetic, "instance") {
			continue
		}
		file := ""
		if fn.Pos().IsValid() && P.Fset != nil {
			file = P.Fset.Position(fn.Pos()).Filename
		}
		if strings.HasSuffix(file, ".pb.go") || strings.HasSuffix(file, "_test.go") {
			continue
		}
		for _, b := range fn.Blocks {
			for _, in := range b.Instrs {
				hit := false
				switch x := in.(type) {
				case *ssa.FieldAddr:
					if pt, ok := x.X.Type().Underlying().(*types.Pointer); ok {
						if st, ok := pt.Elem().Underlying().(*types.Struct); ok && names[st.Field(x.Field).Name()] && inPkg(st.Field(x.Field).Pkg()) {
							hit = true
						}
					}
				case *ssa.Field:
					if st, ok := x.X.Type().Underlying().(*types.Struct); ok && names[st.Field(x.Field).Name()] && inPkg(st.Field(x.Field).Pkg()) {
						hit = true
					}
				case ssa.CallInstruction:
					cc := x.Common()
					if cc.IsInvoke() {
						if names[cc.Method.Name()] && inPkg(cc.Method.Pkg()) {
							hit = true
						}
					} else if f := cc.StaticCallee(); f != nil && names[f.Name()] && f.Pkg != nil && inPkg(f.Pkg.Pkg) && f.Signature.Recv() != nil {
						hit = true
					}
				}
				if hit {
					seen = true
					found[CanonName(fn)] = true
				}
			}
		}
	}
	_ = seen
	want := map[string]bool{}
	for _, w := range sp.List {
		want[w] = true
	}
	var extra, missing []string
	for f := range found {
		if !want[f] {
			extra = append(extra, f)
		}
	}
	for w := range want {
		if !found[w] {
			missing = append(missing, w)
		}
	}
	sort.Strings(extra)
	sort.Strings(missing)
	if len(extra) > 0 {
		return []*OblResult{scanResult(sp.Name, "F8", false, fmt.Sprintf("%s of %s is also used in %v (census lists %v)", sp.Args["names"], sp.Args["pkg"], extra, sp.List))}
	}
	if len(missing) > 0 {
		return []*OblResult{scanResult(sp.Name, "F8", false, fmt.Sprintf("%s of %s is no longer used in %v", sp.Args["names"], sp.Args["pkg"], missing))}
	}
	return []*OblResult{scanResult(sp.Name, "F8", true, fmt.Sprintf("users of %s: %v", sp.Args["names"], sp.List))}
}

func init() { scanKinds["member_users"] = scanMemberUsers }
