package gvc

import (
	"fmt"
	"go/ast"
	"go/token"
	"go/types"
	"golang.org/x/tools/go/ast/astutil"
	"os"
	"strings"

	"golang.org/x/tools/go/ssa"
)

// step executes one non-control instruction. Returns false if the path ends.
func (x *Exec) step(st *State, fr *Frame, ins ssa.Instruction) bool {
	if v, ok := ins.(ssa.Value); ok {
		if fr.stamps == nil {
			fr.stamps = map[ssa.Value]int{}
		}
		fr.nstamp++
		fr.stamps[v] = fr.nstamp
	}
	switch in := ins.(type) {
	case *ssa.DebugRef:
		name := debugName(in)
		if name != "" {
			if _, isConst := in.X.(*ssa.Const); isConst && !in.IsAddr {
				// go/ssa emits a debug reference with the zero value where a local is declared,
				// before its initialiser is assigned: that is not the variable's value. The value is
				// recovered from the latest executed definition among the variable's other references.
				if v, ok := x.latestDefinition(fr, name); ok {
					fr.names[name] = nameBinding{v: v}
				} else if x.isBareVarDecl(in) {
					// `var x T` and no definition executed yet: the declared zero value is the value
					fr.names[name] = nameBinding{v: x.val(st, fr, in.X)}
				} else {
					delete(fr.names, name)
				}
				break
			}
			fr.names[name] = nameBinding{v: x.val(st, fr, in.X), isAddr: in.IsAddr}
			if os.Getenv("GVC_TRACE_IDENT") == name {
				fmt.Fprintf(os.Stderr, "bind %s := %s (%s) block=%d\n", name, fr.names[name].v.T.S, in.X.Name(), fr.block.Index)
			}
		}
	case *ssa.Alloc:
		pt := in.Type().Underlying().(*types.Pointer).Elem()
		if o, ok := sortOverride[typeKey(in.Type())]; ok {
			// new(big.Int), new(big.Rat): value-modelled library types
			fr.env[in] = Val{T: x.S.ZeroOfSort(o, nil), Typ: in.Type()}
			if o == SMInt {
				fr.env[in] = Val{T: mkMInt(IntLit(0)), Typ: in.Type()}
			}
			if o == "Rat" {
				fr.env[in] = Val{T: Term{"(mk-rat false 0 1)", "Rat"}, Typ: in.Type()}
			}
			break
		}
		r := x.newRef(st, in.Comment)
		v := Val{T: r, Typ: in.Type(), LV: &LVal{Kind: "obj", Root: r, RootT: pt}}
		// zero-initialise
		z := x.S.Zero(pt)
		if err := x.storeLV(st, v.LV, z); err != nil {
			x.unsupported("alloc %s: %v", pt, err)
		}
		fr.env[in] = v
		if in.Comment != "" {
			if _, exists := fr.names[in.Comment]; !exists {
				fr.names[in.Comment] = nameBinding{v: v, isAddr: true}
			}
		}
	case *ssa.Store:
		addr := x.val(st, fr, in.Addr)
		v := x.val(st, fr, in.Val)
		x.checkNonNil(st, fr, in, addr)
		l := x.lvalOf(addr)
		if err := x.storeLV(st, l, x.coerce(st, v, derefType(in.Addr.Type())).T); err != nil {
			x.unsupported("store in %s: %v", CanonName(fr.fn), err)
		}
		// static metadata for cells holding closures / contexts / interfaces with known payload
		x.rememberMeta(st, l, v)
	case *ssa.UnOp:
		fr.env[in] = x.unop(st, fr, in)
	case *ssa.BinOp:
		fr.env[in] = x.binop(st, fr, in)
	case *ssa.FieldAddr:
		p := x.val(st, fr, in.X)
		x.checkNonNil(st, fr, in, p)
		pt := in.X.Type().Underlying().(*types.Pointer).Elem()
		l := x.lvalOf(p)
		nl := l.extend(lstep{field: in.Field, ct: pt})
		fr.env[in] = Val{T: x.interiorPtrSt(st, p.T, fmt.Sprintf("f%d", in.Field)), Typ: in.Type(), LV: nl}
	case *ssa.Field:
		sv := x.val(st, fr, in.X)
		si := x.S.StructInfo(in.X.Type())
		if si == nil {
			fr.env[in] = x.freshVal(st, "field", in.Type())
			x.Abstracted["field of overridden struct "+typeKey(in.X.Type())]++
			break
		}
		fr.env[in] = Val{T: App(si.fields[in.Field], x.S.fieldSel(si.sort, si.typ, in.Field), sv.T), Typ: in.Type()}
	case *ssa.IndexAddr:
		xv := x.val(st, fr, in.X)
		iv := x.val(st, fr, in.Index)
		switch t := in.X.Type().Underlying().(type) {
		case *types.Slice:
			x.safety(st, fr, in, "index", And(App(SBool, "<=", IntLit(0), iv.T), App(SBool, "<", iv.T, App(SInt, "s.len", xv.T))))
			idx := App(SInt, "+", App(SInt, "s.off", xv.T), iv.T)
			l := &LVal{Kind: "elems", Root: App(SRef, "s.base", xv.T), RootT: t.Elem(), Path: []lstep{{isIdx: true, idx: idx}}}
			fr.env[in] = Val{T: x.interiorPtrSt(st, App(SRef, "s.base", xv.T), "e"), Typ: in.Type(), LV: l}
		case *types.Pointer: // *[N]T
			at := t.Elem().Underlying().(*types.Array)
			x.checkNonNil(st, fr, in, xv)
			x.safety(st, fr, in, "index", And(App(SBool, "<=", IntLit(0), iv.T), App(SBool, "<", iv.T, IntLit(at.Len()))))
			l := x.lvalOf(xv)
			nl := l.extend(lstep{isIdx: true, idx: iv.T, ct: t.Elem()})
			fr.env[in] = Val{T: x.interiorPtrSt(st, xv.T, "i"), Typ: in.Type(), LV: nl}
		default:
			x.unsupported("IndexAddr on %s", in.X.Type())
			fr.env[in] = x.freshVal(st, "idxaddr", in.Type())
		}
	case *ssa.Index:
		xv := x.val(st, fr, in.X)
		iv := x.val(st, fr, in.Index)
		switch t := in.X.Type().Underlying().(type) {
		case *types.Array:
			x.safety(st, fr, in, "index", And(App(SBool, "<=", IntLit(0), iv.T), App(SBool, "<", iv.T, IntLit(t.Len()))))
			fr.env[in] = Val{T: Select(xv.T, iv.T), Typ: in.Type()}
		case *types.Basic: // string index
			x.safety(st, fr, in, "index", And(App(SBool, "<=", IntLit(0), iv.T), App(SBool, "<", iv.T, App(SInt, "str.len_", xv.T))))
			x.D.DeclareFun("str.at", []string{SStr, SInt}, SInt)
			v := Val{T: App(SInt, "str.at", xv.T, iv.T), Typ: in.Type()}
			x.assumeTyped(st, v)
			fr.env[in] = v
		default:
			fr.env[in] = x.freshVal(st, "index", in.Type())
		}
	case *ssa.Slice:
		fr.env[in] = x.sliceOp(st, fr, in)
	case *ssa.MakeSlice:
		ln := x.val(st, fr, in.Len)
		cp := x.val(st, fr, in.Cap)
		x.safety(st, fr, in, "makeslice", And(App(SBool, "<=", IntLit(0), ln.T), App(SBool, "<=", ln.T, cp.T)))
		et := in.Type().Underlying().(*types.Slice).Elem()
		r := x.newRef(st, "make")
		sort := x.S.SortOf(et)
		n, s := elemArrName(sort)
		arr := x.heapArr(st, n, s)
		zero := x.S.ZeroOfSort(ArraySort(SInt, sort), types.NewArray(et, 0))
		x.setHeap(st, n, Store(arr, r, zero))
		fr.env[in] = Val{T: App(SSlice, "mk-slice", r, IntLit(0), ln.T, cp.T), Typ: in.Type()}
	case *ssa.MakeMap:
		r := x.newRef(st, "map")
		mt := in.Type().Underlying().(*types.Map)
		ks, vs := x.S.SortOf(mt.Key()), x.S.SortOf(mt.Elem())
		dn, ds := "MD."+ks, ArraySort(SRef, ArraySort(ks, SBool))
		x.setHeap(st, dn, Store(x.heapArr(st, dn, ds), r, Term{fmt.Sprintf("((as const %s) false)", ArraySort(ks, SBool)), ArraySort(ks, SBool)}))
		vn, vsrt := "MV."+ks+"."+vs, ArraySort(SRef, ArraySort(ks, vs))
		zero := x.S.ZeroOfSort(vs, mt.Elem())
		x.setHeap(st, vn, Store(x.heapArr(st, vn, vsrt), r, Term{fmt.Sprintf("((as const %s) %s)", ArraySort(ks, vs), zero.S), ArraySort(ks, vs)}))
		fr.env[in] = Val{T: r, Typ: in.Type()}
	case *ssa.MapUpdate:
		m := x.val(st, fr, in.Map)
		k := x.val(st, fr, in.Key)
		v := x.val(st, fr, in.Value)
		mt := in.Map.Type().Underlying().(*types.Map)
		x.safety(st, fr, in, "nilmap", Not(Eq(m.T, TNull)))
		ks, vs := x.S.SortOf(mt.Key()), x.S.SortOf(mt.Elem())
		k = x.coerce(st, k, mt.Key())
		v = x.coerce(st, v, mt.Elem())
		dn, ds := "MD."+ks, ArraySort(SRef, ArraySort(ks, SBool))
		darr := x.heapArr(st, dn, ds)
		x.setHeap(st, dn, Store(darr, m.T, Store(Select(darr, m.T), k.T, TTrue)))
		vn, vsrt := "MV."+ks+"."+vs, ArraySort(SRef, ArraySort(ks, vs))
		varr := x.heapArr(st, vn, vsrt)
		x.setHeap(st, vn, Store(varr, m.T, Store(Select(varr, m.T), k.T, v.T)))
	case *ssa.Lookup:
		fr.env[in] = x.lookup(st, fr, in)
	case *ssa.MakeInterface:
		v := x.val(st, fr, in.X)
		fr.env[in] = x.makeIface(st, v, in.X.Type(), in.Type())
	case *ssa.ChangeInterface:
		v := x.val(st, fr, in.X)
		v.Typ = in.Type()
		fr.env[in] = v
	case *ssa.ChangeType:
		v := x.val(st, fr, in.X)
		nv := v
		nv.Typ = in.Type()
		if x.S.SortOf(in.Type()) != v.T.Sort {
			nv = x.convertOpaque(st, v, in.Type())
		}
		fr.env[in] = nv
	case *ssa.Convert:
		fr.env[in] = x.convert(st, fr, in)
	case *ssa.TypeAssert:
		if !x.typeAssert(st, fr, in) {
			return false
		}
	case *ssa.Extract:
		t := x.val(st, fr, in.Tuple)
		if in.Index < len(t.Tup) {
			fr.env[in] = t.Tup[in.Index]
		} else {
			x.unsupported("extract from non-tuple in %s", CanonName(fr.fn))
			fr.env[in] = x.freshVal(st, "extract", in.Type())
		}
	case *ssa.MakeClosure:
		fn := in.Fn.(*ssa.Function)
		clo := &Closure{Fn: fn}
		for _, b := range in.Bindings {
			clo.Bindings = append(clo.Bindings, x.val(st, fr, b))
		}
		t := x.D.Fresh("closure."+fn.Name(), SFn)
		fr.env[in] = Val{T: t, Typ: in.Type(), Clo: clo}
	case *ssa.Call:
		cc := in.Common()
		fnv, args := x.callOperands(st, fr, cc)
		pushed := x.call(st, fr, in, cc, fnv, args, func(v Val) { fr.env[in] = v })
		if st.dead {
			return false
		}
		if !pushed {
			fr.pc++
		}
		return true
	case *ssa.Defer:
		cc := in.Common()
		fnv, args := x.callOperands(st, fr, cc)
		fr.defers = append(fr.defers, deferred{call: cc, fn: fnv, args: args, pos: in})
	case *ssa.Go:
		x.unsupported("go statement in %s", CanonName(fr.fn))
		x.Abstracted["goroutine"]++
	case *ssa.Range:
		xv := x.val(st, fr, in.X)
		it := Val{T: x.D.Fresh("rangeiter", SRef), Typ: in.Type()}
		it.Dyn = &xv // remember the ranged-over value
		fr.env[in] = it
	case *ssa.Next:
		fr.env[in] = x.rangeNext(st, fr, in)
	case *ssa.Select, *ssa.Send, *ssa.MakeChan:
		x.unsupported("channel operation in %s", CanonName(fr.fn))
		if v, ok := ins.(ssa.Value); ok {
			fr.env[v] = x.freshVal(st, "chan", v.Type())
		}
	case *ssa.SliceToArrayPointer:
		// (*[N]T)(s): panics when len(s) < N; the result points at the first N elements of s. Modelled
		// as a fresh array cell holding a copy of them (the conversions in this code base are
		// dereferenced at once: [N]T(s)), i.e. aliasing with s is dropped.
		sv := x.val(st, fr, in.X)
		at, okT := in.Type().Underlying().(*types.Pointer).Elem().Underlying().(*types.Array)
		if !okT || sv.T.Sort != SSlice {
			fr.env[in] = x.freshVal(st, "conv", in.Type())
			x.Abstracted["slice-to-array / multiconvert"]++
			break
		}
		x.safety(st, fr, in, "slice", App(SBool, ">=", App(SInt, "s.len", sv.T), IntLit(at.Len())))
		esort := x.S.SortOf(at.Elem())
		en, es := elemArrName(esort)
		harr := x.heapArr(st, en, es)
		src := x.define(st, "s2a.src", Select(harr, App(SRef, "s.base", sv.T)))
		r := x.newRef(st, "s2a")
		row := x.D.Fresh("s2a.row", ArraySort(SInt, esort))
		st.assume(Term{fmt.Sprintf("(forall ((i Int)) (! (=> (and (<= 0 i) (< i %d)) (= (select %s i) (select %s (+ %s i)))) :pattern ((select %s i))))", at.Len(), row.S, src.S, App(SInt, "s.off", sv.T).S, row.S), SBool})
		x.setHeap(st, en, Store(harr, r, row))
		fr.env[in] = Val{T: r, Typ: in.Type(), LV: &LVal{Kind: "obj", Root: r, RootT: at}}
		x.Abstracted["slice converted to array: contents copied (aliasing with the slice dropped)"]++
	case *ssa.MultiConvert:
		v := ins.(ssa.Value)
		fr.env[v] = x.freshVal(st, "conv", v.Type())
		x.Abstracted["slice-to-array / multiconvert"]++
	default:
		x.unsupported("instruction %T in %s", ins, CanonName(fr.fn))
		if v, ok := ins.(ssa.Value); ok {
			fr.env[v] = x.freshVal(st, "unk", v.Type())
		}
	}
	fr.pc++
	return true
}

func derefType(t types.Type) types.Type {
	if p, ok := t.Underlying().(*types.Pointer); ok {
		return p.Elem()
	}
	return nil
}

// isBareVarDecl: the debug reference sits on the name of a `var x T` declaration without initialiser.
func (x *Exec) isBareVarDecl(in *ssa.DebugRef) bool {
	id, ok := in.Expr.(*ast.Ident)
	if !ok || !id.Pos().IsValid() {
		return false
	}
	for _, p := range x.P.Pkgs {
		for _, f := range p.Syntax {
			if f.Pos() <= id.Pos() && id.Pos() < f.End() {
				path, _ := astutil.PathEnclosingInterval(f, id.Pos(), id.End())
				for _, n := range path {
					if vs, ok := n.(*ast.ValueSpec); ok {
						for _, nm := range vs.Names {
							if nm.Pos() == id.Pos() {
								return len(vs.Values) == 0
							}
						}
						return false
					}
				}
				return false
			}
		}
	}
	return false
}

func debugName(in *ssa.DebugRef) string {
	if id, ok := in.Expr.(*ast.Ident); ok {
		return id.Name
	}
	return ""
}

// interiorPtr gives interior pointers a term (used only for nil tests / identity).
func (x *Exec) interiorPtr(base Term, tag string) Term {
	fn := "iptr_" + tag
	x.D.DeclareFun(fn, []string{SRef}, SRef)
	return App(SRef, fn, base)
}

// interiorPtrSt: the address of a field / element of a non-nil object is not nil.
func (x *Exec) interiorPtrSt(st *State, base Term, tag string) Term {
	t := x.interiorPtr(base, tag)
	st.assume(Implies(Not(Eq(base, TNull)), Not(Eq(t, TNull))))
	return t
}

func (x *Exec) checkNonNil(st *State, fr *Frame, in ssa.Instruction, p Val) {
	if p.LV != nil && p.LV.Kind != "obj" {
		return
	}
	if p.LV != nil && len(p.LV.Path) > 0 {
		return // interior pointer: nil-ness was checked when the base was dereferenced
	}
	if x.noPanic(fr) {
		x.safety(st, fr, in, "nilderef", Not(Eq(x.rootOf(p), TNull)))
	}
	// after a successful dereference the pointer is known non-nil
	st.assume(Not(Eq(x.rootOf(p), TNull)))
}

func (x *Exec) rootOf(p Val) Term {
	if p.LV != nil && p.LV.Kind == "obj" {
		return p.LV.Root
	}
	return p.T
}

// metadata side table: static information about values stored in heap cells (closures, contexts).
// Keyed by a rendering of the lvalue; kept per State in heap map under "!meta:" keys is not possible
// (Terms only), so we keep it in the frame-independent side map on State.
func (x *Exec) rememberMeta(st *State, l *LVal, v Val) {
	if v.Clo == nil && v.World == 0 && v.Dyn == nil && v.Fn == nil && v.LV == nil && v.Commit == nil {
		if st.meta != nil {
			delete(st.meta, lvKey(l))
		}
		return
	}
	if st.meta == nil {
		st.meta = map[string]Val{}
	}
	st.meta[lvKey(l)] = v
}

func lvKey(l *LVal) string {
	s := l.Kind + ":" + l.Root.S + ":" + l.Name
	for _, p := range l.Path {
		if p.isIdx {
			s += "[" + p.idx.S + "]"
		} else {
			s += fmt.Sprintf(".%d", p.field)
		}
	}
	return s
}

func (x *Exec) unop(st *State, fr *Frame, in *ssa.UnOp) Val {
	v := x.val(st, fr, in.X)
	switch in.Op {
	case token.MUL: // load
		x.checkNonNil(st, fr, in, v)
		l := x.lvalOf(v)
		t, _, err := x.loadLV(st.heap, l)
		if err != nil {
			x.unsupported("load in %s: %v", CanonName(fr.fn), err)
			return x.freshVal(st, "load", in.Type())
		}
		want := x.S.SortOf(in.Type())
		if t.Sort != want {
			x.unsupported("load sort mismatch %s vs %s in %s", t.Sort, want, CanonName(fr.fn))
			return x.freshVal(st, "load", in.Type())
		}
		res := Val{T: x.define(st, "ld", t), Typ: in.Type()}
		if st.meta != nil {
			if m, ok := st.meta[lvKey(l)]; ok {
				res.Clo, res.World, res.Dyn, res.Fn, res.LV, res.Pfx, res.Commit = m.Clo, m.World, m.Dyn, m.Fn, m.LV, m.Pfx, m.Commit
			}
		}
		x.assumeTyped(st, res)
		x.sawRef(st, res)
		if l.Kind == "global" && res.T.Sort == SIface && len(l.Path) == 0 {
			if i := strings.LastIndex(l.Name, "."); i >= 0 && strings.HasPrefix(l.Name[i+1:], "Err") {
				// sentinel errors (package-level Err… variables) are assigned a non-nil error in the
				// package initialiser and never reassigned
				st.assume(Not(Eq(res.T, TINil)))
				x.Trusted["assumed: sentinel error variables (Err…) are non-nil"]++
			}
		}
		return res
	case token.NOT:
		return Val{T: Not(v.T), Typ: in.Type()}
	case token.SUB:
		if v.T.Sort == SReal {
			return Val{T: App(SReal, "-", v.T), Typ: in.Type()}
		}
		r := rangeOf(in.Type())
		t := App(SInt, "-", v.T)
		if r != nil {
			t = r.wrap1(t)
		}
		return Val{T: t, Typ: in.Type()}
	case token.XOR:
		r := rangeOf(in.Type())
		if r != nil && !r.signed {
			return Val{T: App(SInt, "-", bigLit(r.hi), v.T), Typ: in.Type()}
		}
		return Val{T: App(SInt, "-", App(SInt, "-", v.T), IntLit(1)), Typ: in.Type()}
	case token.ARROW:
		x.unsupported("channel receive in %s", CanonName(fr.fn))
	}
	return x.freshVal(st, "unop", in.Type())
}

func (x *Exec) binop(st *State, fr *Frame, in *ssa.BinOp) Val {
	a := x.val(st, fr, in.X)
	b := x.val(st, fr, in.Y)
	t := in.Type()
	switch in.Op {
	case token.EQL, token.NEQ:
		e := x.equal(st, a, b, in.X.Type())
		if in.Op == token.NEQ {
			e = Not(e)
		}
		return Val{T: e, Typ: t}
	}
	if a.T.Sort == SStr {
		switch in.Op {
		case token.ADD:
			x.D.DeclareFun("str.cat", []string{SStr, SStr}, SStr)
			r := Val{T: App(SStr, "str.cat", a.T, b.T), Typ: t}
			st.assume(Eq(App(SInt, "str.len_", r.T), App(SInt, "+", App(SInt, "str.len_", a.T), App(SInt, "str.len_", b.T))))
			return r
		case token.LSS, token.LEQ, token.GTR, token.GEQ:
			x.D.DeclareFun("str.cmp", []string{SStr, SStr}, SInt)
			c := App(SInt, "str.cmp", a.T, b.T)
			op := map[token.Token]string{token.LSS: "<", token.LEQ: "<=", token.GTR: ">", token.GEQ: ">="}[in.Op]
			return Val{T: App(SBool, op, c, IntLit(0)), Typ: t}
		}
	}
	if a.T.Sort == SBool {
		switch in.Op {
		case token.AND, token.LAND:
			return Val{T: And(a.T, b.T), Typ: t}
		case token.OR, token.LOR:
			return Val{T: Or(a.T, b.T), Typ: t}
		}
	}
	if a.T.Sort == SReal {
		switch in.Op {
		case token.ADD, token.SUB, token.MUL, token.QUO:
			op := map[token.Token]string{token.ADD: "+", token.SUB: "-", token.MUL: "*", token.QUO: "/"}[in.Op]
			return Val{T: App(SReal, op, a.T, b.T), Typ: t}
		case token.LSS, token.LEQ, token.GTR, token.GEQ:
			op := map[token.Token]string{token.LSS: "<", token.LEQ: "<=", token.GTR: ">", token.GEQ: ">="}[in.Op]
			return Val{T: App(SBool, op, a.T, b.T), Typ: t}
		}
	}
	if a.T.Sort == SInt {
		r := rangeOf(t)
		switch in.Op {
		case token.LSS, token.LEQ, token.GTR, token.GEQ:
			op := map[token.Token]string{token.LSS: "<", token.LEQ: "<=", token.GTR: ">", token.GEQ: ">="}[in.Op]
			return Val{T: App(SBool, op, a.T, b.T), Typ: t}
		case token.ADD, token.SUB:
			op := "+"
			if in.Op == token.SUB {
				op = "-"
			}
			raw := App(SInt, op, a.T, b.T)
			if r != nil {
				raw = x.define(st, "ar", raw)
				return Val{T: x.define(st, "wr", r.wrap1(raw)), Typ: t}
			}
			return Val{T: raw, Typ: t}
		case token.MUL:
			raw := App(SInt, "*", a.T, b.T)
			if r != nil {
				raw = x.define(st, "ar", raw)
				return Val{T: x.define(st, "wr", r.wrapFull(raw)), Typ: t}
			}
			return Val{T: raw, Typ: t}
		case token.QUO, token.REM:
			x.safety(st, fr, in, "divzero", Not(Eq(b.T, IntLit(0))))
			at, bt := x.define(st, "dn", a.T), x.define(st, "dd", b.T)
			return Val{T: x.define(st, "dv", x.truncDiv(at, bt, in.Op == token.REM, r)), Typ: t}
		case token.SHL, token.SHR:
			if c, ok := in.Y.(*ssa.Const); ok && c.Value != nil {
				if k, ok := constInt64(c); ok && k >= 0 && k < 64 {
					p := IntLitStr(pow2(int(k)))
					if in.Op == token.SHL {
						raw := App(SInt, "*", a.T, p)
						if r != nil {
							return Val{T: x.define(st, "wr", r.wrapFull(raw)), Typ: t}
						}
						return Val{T: raw, Typ: t}
					}
					return Val{T: App(SInt, "div", a.T, p), Typ: t}
				}
			}
		case token.AND:
			if c, ok := in.Y.(*ssa.Const); ok && c.Value != nil {
				if k, ok := constInt64(c); ok && k > 0 && (k&(k+1)) == 0 {
					return Val{T: App(SInt, "mod", a.T, IntLit(k+1)), Typ: t}
				}
			}
		}
		fn := "bitop_" + mangle(in.Op.String())
		x.D.DeclareFun(fn, []string{SInt, SInt}, SInt)
		v := Val{T: App(SInt, fn, a.T, b.T), Typ: t}
		x.assumeTyped(st, v)
		x.Abstracted["bit operation "+in.Op.String()]++
		return v
	}
	x.unsupported("binop %s on %s in %s", in.Op, a.T.Sort, CanonName(fr.fn))
	return x.freshVal(st, "binop", t)
}

func pow2(k int) string {
	return new(bigInt).Lsh(bigOne, uint(k)).String()
}

func constInt64(c *ssa.Const) (int64, bool) {
	if c.Value == nil {
		return 0, false
	}
	return c.Int64(), true
}

// truncDiv implements Go's truncated division/remainder over SMT's floor/Euclidean div.
func (x *Exec) truncDiv(a, b Term, rem bool, r *intRange) Term {
	var q Term
	switch {
	case r != nil && !r.signed:
		q = App(SInt, "div", a, b)
	case isIntLit(b.S) && b.S != "0":
		// positive literal divisor: truncation differs from floor only for negative dividends
		q = Ite(App(SBool, ">=", a, IntLit(0)), App(SInt, "div", a, b), App(SInt, "-", App(SInt, "div", App(SInt, "-", a), b)))
	default:
		// sign-aware: q = sgn(a)*sgn(b) * (|a| div |b|)
		absA := Ite(App(SBool, ">=", a, IntLit(0)), a, App(SInt, "-", a))
		absB := Ite(App(SBool, ">=", b, IntLit(0)), b, App(SInt, "-", b))
		m := App(SInt, "div", absA, absB)
		same := Eq(App(SBool, ">=", a, IntLit(0)), App(SBool, ">=", b, IntLit(0)))
		q = Ite(same, m, App(SInt, "-", m))
		if r != nil && r.signed && !rem {
			q = r.wrap1(q) // MinInt / -1
		}
	}
	if !rem {
		return q
	}
	return App(SInt, "-", a, App(SInt, "*", b, q))
}

// equal models Go's == on two values of static type t.
func (x *Exec) equal(st *State, a, b Val, t types.Type) Term {
	if a.T.Sort != b.T.Sort {
		// interface vs concrete comparison (rare) or nil literal typed differently
		if a.T.Sort == SIface && b.T.S == "null" {
			return Eq(a.T, TINil)
		}
		if b.T.Sort == SIface && a.T.S == "null" {
			return Eq(b.T, TINil)
		}
		if a.T.Sort == SSlice && (b.T.S == "null") {
			return Eq(App(SRef, "s.base", a.T), TNull)
		}
		x.unsupported("== across sorts %s / %s", a.T.Sort, b.T.Sort)
		return x.D.Fresh("eq", SBool)
	}
	switch a.T.Sort {
	case SSlice:
		// only comparison against nil is legal
		if b.T.S == "(mk-slice null 0 0 0)" {
			return Eq(App(SRef, "s.base", a.T), TNull)
		}
		if a.T.S == "(mk-slice null 0 0 0)" {
			return Eq(App(SRef, "s.base", b.T), TNull)
		}
	case SMInt:
		// struct{ i *big.Int } compared by pointer: equal when both nil; unknown otherwise
		bothNil := And(App(SBool, "mint.nil", a.T), App(SBool, "mint.nil", b.T))
		oneNil := Not(Eq(App(SBool, "mint.nil", a.T), App(SBool, "mint.nil", b.T)))
		u := x.D.Fresh("ptreq", SBool)
		return Ite(bothNil, TTrue, Ite(oneNil, TFalse, u))
	}
	return Eq(a.T, b.T)
}

// coerce adapts a value to a destination static type (interface boxing is explicit in SSA, so this
// only reconciles sorts for overridden / opaque types).
func (x *Exec) coerce(st *State, v Val, t types.Type) Val {
	if t == nil {
		return v
	}
	want := x.S.SortOf(t)
	if v.T.Sort == want {
		return v
	}
	if v.T.S == "null" || v.T.S == "inil" {
		return Val{T: x.S.Zero(t), Typ: t}
	}
	return x.convertOpaque(st, v, t)
}

func (x *Exec) convertOpaque(st *State, v Val, t types.Type) Val {
	want := x.S.SortOf(t)
	fn := "cast_" + mangle(v.T.Sort) + "_to_" + mangle(want)
	x.D.DeclareFun(fn, []string{v.T.Sort}, want)
	nv := Val{T: App(want, fn, v.T), Typ: t}
	x.assumeTyped(st, nv)
	return nv
}

func (x *Exec) sliceOp(st *State, fr *Frame, in *ssa.Slice) Val {
	xv := x.val(st, fr, in.X)
	var lo, hi, mx *Val
	if in.Low != nil {
		v := x.val(st, fr, in.Low)
		lo = &v
	}
	if in.High != nil {
		v := x.val(st, fr, in.High)
		hi = &v
	}
	if in.Max != nil {
		v := x.val(st, fr, in.Max)
		mx = &v
	}
	loT := IntLit(0)
	if lo != nil {
		loT = lo.T
	}
	switch t := in.X.Type().Underlying().(type) {
	case *types.Slice:
		ln, cp := App(SInt, "s.len", xv.T), App(SInt, "s.cap", xv.T)
		hiT := ln
		if hi != nil {
			hiT = hi.T
		}
		mxT := cp
		if mx != nil {
			mxT = mx.T
		}
		x.safety(st, fr, in, "slice", And(App(SBool, "<=", IntLit(0), loT), App(SBool, "<=", loT, hiT), App(SBool, "<=", hiT, mxT), App(SBool, "<=", mxT, cp)))
		return Val{T: App(SSlice, "mk-slice", App(SRef, "s.base", xv.T), App(SInt, "+", App(SInt, "s.off", xv.T), loT), App(SInt, "-", hiT, loT), App(SInt, "-", mxT, loT)), Typ: in.Type()}
	case *types.Basic: // string
		ln := App(SInt, "str.len_", xv.T)
		hiT := ln
		if hi != nil {
			hiT = hi.T
		}
		x.safety(st, fr, in, "slice", And(App(SBool, "<=", IntLit(0), loT), App(SBool, "<=", loT, hiT), App(SBool, "<=", hiT, ln)))
		x.D.DeclareFun("str.sub", []string{SStr, SInt, SInt}, SStr)
		r := Val{T: App(SStr, "str.sub", xv.T, loT, hiT), Typ: in.Type()}
		st.assume(Eq(App(SInt, "str.len_", r.T), App(SInt, "-", hiT, loT)))
		return r
	case *types.Pointer: // *[N]T -> slice over the array cell
		at := t.Elem().Underlying().(*types.Array)
		n := IntLit(at.Len())
		hiT := n
		if hi != nil {
			hiT = hi.T
		}
		x.safety(st, fr, in, "slice", And(App(SBool, "<=", IntLit(0), loT), App(SBool, "<=", loT, hiT), App(SBool, "<=", hiT, n)))
		l := x.lvalOf(xv)
		if l.Kind == "obj" && len(l.Path) == 0 && l.RootT != nil {
			if _, isArr := l.RootT.Underlying().(*types.Array); isArr {
				// the array cell is its own slice backing (see cellArrName): no copy, full aliasing
				if at0 := l.RootT.Underlying().(*types.Array); st.meta != nil && at0.Len() <= 64 {
					// static information about the cells is also reachable through the slice
					for k := int64(0); k < at0.Len(); k++ {
						src := l.extend(lstep{isIdx: true, idx: IntLit(k), ct: at0.Elem()})
						if mv, ok := st.meta[lvKey(src)]; ok {
							dst := &LVal{Kind: "elems", Root: l.Root, RootT: at0.Elem(), Path: []lstep{{isIdx: true, idx: IntLit(k)}}}
							st.meta[lvKey(dst)] = mv
						}
					}
				}
				return Val{T: App(SSlice, "mk-slice", l.Root, loT, App(SInt, "-", hiT, loT), App(SInt, "-", n, loT)), Typ: in.Type()}
			}
		}
		// an array inside a larger object: materialise it as slice backing by copying the array value
		// into an elems row (aliasing with the enclosing object is dropped)
		arrT, _, err := x.loadLV(st.heap, l)
		sort := x.S.SortOf(at.Elem())
		base := x.newRef(st, "arr")
		if err == nil {
			en, es := elemArrName(sort)
			x.setHeap(st, en, Store(x.heapArr(st, en, es), base, arrT))
		}
		res := Val{T: App(SSlice, "mk-slice", base, loT, App(SInt, "-", hiT, loT), App(SInt, "-", n, loT)), Typ: in.Type()}
		// static information about the cells (dynamic types of interface values in a varargs array,
		// closures) follows the copy, so specs can speak about payload(args[k])
		if st.meta != nil && at.Len() <= 64 {
			for k := int64(0); k < at.Len(); k++ {
				src := l.extend(lstep{isIdx: true, idx: IntLit(k), ct: at.Elem()})
				if mv, ok := st.meta[lvKey(src)]; ok {
					dst := &LVal{Kind: "elems", Root: base, RootT: at.Elem(), Path: []lstep{{isIdx: true, idx: IntLit(k)}}}
					st.meta[lvKey(dst)] = mv
				}
			}
		}
		x.Abstracted["slice of array pointer copied (aliasing with the array dropped)"]++
		return res
	}
	x.unsupported("slice of %s", in.X.Type())
	return x.freshVal(st, "slice", in.Type())
}

func (x *Exec) lookup(st *State, fr *Frame, in *ssa.Lookup) Val {
	m := x.val(st, fr, in.X)
	k := x.val(st, fr, in.Index)
	mt, ok := in.X.Type().Underlying().(*types.Map)
	if !ok {
		// string index via Lookup
		x.D.DeclareFun("str.at", []string{SStr, SInt}, SInt)
		v := Val{T: App(SInt, "str.at", m.T, k.T), Typ: in.Type()}
		x.assumeTyped(st, v)
		return v
	}
	ks, vs := x.S.SortOf(mt.Key()), x.S.SortOf(mt.Elem())
	k = x.coerce(st, k, mt.Key())
	dn, ds := "MD."+ks, ArraySort(SRef, ArraySort(ks, SBool))
	vn, vsrt := "MV."+ks+"."+vs, ArraySort(SRef, ArraySort(ks, vs))
	has := Select(Select(x.heapArr(st, dn, ds), m.T), k.T)
	zero := x.S.ZeroOfSort(vs, mt.Elem())
	val := Ite(has, Select(Select(x.heapArr(st, vn, vsrt), m.T), k.T), zero)
	vv := Val{T: x.define(st, "mv", val), Typ: mt.Elem()}
	x.assumeTyped(st, vv)
	if in.CommaOk {
		return Val{T: Term{"unit", SUnit}, Typ: in.Type(), Tup: []Val{vv, {T: has, Typ: types.Typ[types.Bool]}}}
	}
	return vv
}

func (x *Exec) makeIface(st *State, v Val, from types.Type, to types.Type) Val {
	sort := v.T.Sort
	tid := x.S.TypeID(from)
	box := fmt.Sprintf("box_%d", tid)
	unbox := fmt.Sprintf("unbox_%d", tid)
	x.D.DeclareFun(box, []string{sort}, SIface)
	x.D.DeclareFun(unbox, []string{SIface}, sort)
	t := App(SIface, box, v.T)
	t = x.define(st, "ifc", t)
	st.assume(Eq(App(sort, unbox, t), v.T))
	st.assume(Eq(App(SInt, "itype", t), IntLit(int64(tid))))
	pv := v
	pv.Typ = from
	return Val{T: t, Typ: to, Dyn: &pv, World: v.World, Clo: v.Clo}
}

func (x *Exec) typeAssert(st *State, fr *Frame, in *ssa.TypeAssert) bool {
	v := x.val(st, fr, in.X)
	target := in.AssertedType
	var ok Term
	var res Val
	if _, isIface := target.Underlying().(*types.Interface); isIface {
		// interface-to-interface: succeeds iff dynamic type implements target
		if v.Dyn != nil {
			if types.Implements(v.Dyn.Typ, target.Underlying().(*types.Interface)) || types.Implements(types.NewPointer(v.Dyn.Typ), target.Underlying().(*types.Interface)) {
				ok = TTrue
			} else {
				ok = TFalse
			}
		} else {
			fnm := "implements_" + mangle(typeKey(target))
			if len(fnm) > 90 {
				fnm = fnm[:70] + shortHash(fnm)
			}
			x.D.DeclareFun(fnm, []string{SInt}, SBool)
			ok = And(Not(Eq(v.T, TINil)), App(SBool, fnm, App(SInt, "itype", v.T)))
		}
		res = v
		res.Typ = target
	} else {
		tid := x.S.TypeID(target)
		sort := x.S.SortOf(target)
		unbox := fmt.Sprintf("unbox_%d", tid)
		box := fmt.Sprintf("box_%d", tid)
		x.D.DeclareFun(box, []string{sort}, SIface)
		x.D.DeclareFun(unbox, []string{SIface}, sort)
		if v.Dyn != nil {
			if types.Identical(v.Dyn.Typ, target) {
				ok = TTrue
				res = *v.Dyn
			} else {
				ok = TFalse
				res = Val{T: x.S.Zero(target), Typ: target}
			}
		} else {
			ok = Eq(App(SInt, "itype", v.T), IntLit(int64(tid)))
			res = Val{T: App(sort, unbox, v.T), Typ: target}
			x.assumeTyped(st, res)
		}
	}
	if in.CommaOk {
		zero := Val{T: x.S.Zero(target), Typ: target}
		val := res
		if ok.S != "true" {
			val.T = Ite(ok, res.T, zero.T)
		}
		fr.env[in] = Val{T: Term{"unit", SUnit}, Typ: in.Type(), Tup: []Val{val, {T: ok, Typ: types.Typ[types.Bool]}}}
		return true
	}
	x.safety(st, fr, in, "typeassert", ok)
	if ok.S == "false" {
		x.doPanic(st, fr, in, "type assertion fails")
		return false
	}
	st.assume(ok)
	fr.env[in] = res
	return true
}

func (x *Exec) convert(st *State, fr *Frame, in *ssa.Convert) Val {
	v := x.val(st, fr, in.X)
	from, to := in.X.Type(), in.Type()
	fs, ts := x.S.SortOf(from), x.S.SortOf(to)
	switch {
	case fs == SInt && ts == SInt:
		r := rangeOf(to)
		fr0 := rangeOf(from)
		if r == nil {
			return Val{T: v.T, Typ: to}
		}
		if fr0 != nil && fr0.lo.Cmp(r.lo) >= 0 && fr0.hi.Cmp(r.hi) <= 0 {
			return Val{T: v.T, Typ: to}
		}
		// same width sign change is a single wrap
		if fr0 != nil && fr0.bits == r.bits {
			return Val{T: x.define(st, "cv", r.wrap1(v.T)), Typ: to}
		}
		return Val{T: x.define(st, "cv", r.wrapFull(v.T)), Typ: to}
	case fs == SInt && ts == SReal:
		return Val{T: App(SReal, "to_real", v.T), Typ: to}
	case fs == SReal && ts == SInt:
		// truncation toward zero (float rounding is out of model: T7)
		t := Ite(App(SBool, ">=", v.T, Term{"0.0", SReal}), App(SInt, "to_int", v.T), App(SInt, "-", App(SInt, "to_int", App(SReal, "-", v.T))))
		nv := Val{T: x.define(st, "f2i", t), Typ: to}
		return nv
	case fs == SReal && ts == SReal:
		return Val{T: v.T, Typ: to}
	case fs == ts:
		nv := v
		nv.Typ = to
		return nv
	case fs == SSlice && ts == SStr:
		x.D.DeclareFun("str.ofbytes", []string{SBytes}, SStr)
		b := x.bytesOf(st, v)
		r := Val{T: App(SStr, "str.ofbytes", b), Typ: to}
		st.assume(Eq(App(SInt, "str.len_", r.T), App(SInt, "s.len", v.T)))
		return r
	case fs == SStr && ts == SSlice:
		x.D.DeclareFun("bytes.ofstr", []string{SStr}, SBytes)
		r := x.freshVal(st, "bytes", to)
		st.assume(Eq(App(SInt, "s.len", r.T), App(SInt, "str.len_", v.T)))
		bo := App(SBytes, "bytes.ofstr", v.T)
		st.assume(Eq(x.bytesOf(st, r), bo))
		x.injective1(st, "bytes.ofstr", SStr, SBytes, v.T, bo)
		// string([]byte(s)) == s
		x.D.DeclareFun("str.ofbytes", []string{SBytes}, SStr)
		st.assume(Eq(App(SStr, "str.ofbytes", bo), v.T))
		st.assume(Not(Eq(App(SRef, "s.base", r.T), TNull)))
		return r
	case fs == SInt && ts == SStr:
		x.D.DeclareFun("str.ofrune", []string{SInt}, SStr)
		return Val{T: App(SStr, "str.ofrune", v.T), Typ: to}
	}
	return x.convertOpaque(st, v, to)
}

// bytesOf abstracts the content of a byte slice as a value of sort Bytes.
func (x *Exec) bytesOf(st *State, v Val) Term {
	return x.bytesOfIn(st.heap, v.T)
}

func (x *Exec) bytesOfIn(h map[string]Term, sl Term) Term {
	n, s := elemArrName(SInt)
	arr := heapArrIn(x, h, n, s)
	x.D.DeclareFun("bytes.of", []string{ArraySort(SInt, SInt), SInt, SInt}, SBytes)
	return App(SBytes, "bytes.of", Select(arr, App(SRef, "s.base", sl)), App(SInt, "s.off", sl), App(SInt, "s.len", sl))
}

func (x *Exec) rangeNext(st *State, fr *Frame, in *ssa.Next) Val {
	it := x.val(st, fr, in.Iter)
	tup := in.Type().(*types.Tuple)
	ok := x.D.Fresh("range.ok", SBool)
	var vals []Val
	vals = append(vals, Val{T: ok, Typ: types.Typ[types.Bool]})
	for i := 1; i < tup.Len(); i++ {
		t := tup.At(i).Type()
		if b, isBasic := t.(*types.Basic); isBasic && b.Kind() == types.Invalid && it.Dyn != nil {
			// go/ssa types the component of a blank range variable as invalid: take it from the map
			if mt, isMap := it.Dyn.Typ.Underlying().(*types.Map); isMap && !in.IsString {
				if i == 1 {
					t = mt.Key()
				} else {
					t = mt.Elem()
				}
			}
		}
		vals = append(vals, x.freshVal(st, "range.kv", t))
	}
	if it.Dyn != nil && !in.IsString {
		if mt, isMap := it.Dyn.Typ.Underlying().(*types.Map); isMap {
			ks := x.S.SortOf(mt.Key())
			vs := x.S.SortOf(mt.Elem())
			dn, ds := "MD."+ks, ArraySort(SRef, ArraySort(ks, SBool))
			vn, vsrt := "MV."+ks+"."+vs, ArraySort(SRef, ArraySort(ks, vs))
			has := Select(Select(x.heapArr(st, dn, ds), it.Dyn.T), vals[1].T)
			st.assume(Implies(ok, has))
			if vals[2].T.Sort == vs {
				st.assume(Implies(ok, Eq(vals[2].T, Select(Select(x.heapArr(st, vn, vsrt), it.Dyn.T), vals[1].T))))
			}
		}
	}
	x.Abstracted["map/string range: arbitrary element each iteration (visited-set not tracked)"]++
	return Val{T: Term{"unit", SUnit}, Typ: in.Type(), Tup: vals}
}

// latestDefinition: among the debug references of the local `name` (other than zero-value
// declarations), the referenced SSA value that was computed most recently on this path.
func (x *Exec) latestDefinition(fr *Frame, name string) (Val, bool) {
	best, bestStamp := Val{}, -1
	for _, b := range fr.fn.Blocks {
		for _, in := range b.Instrs {
			d, ok := in.(*ssa.DebugRef)
			if !ok || d.IsAddr || debugName(d) != name {
				continue
			}
			if _, isConst := d.X.(*ssa.Const); isConst {
				continue
			}
			v, ok := fr.env[d.X]
			if !ok {
				continue
			}
			if s := fr.stamps[d.X]; s > bestStamp {
				best, bestStamp = v, s
			}
		}
	}
	return best, bestStamp >= 0
}
