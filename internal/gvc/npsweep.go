package gvc

// gvc npsweep: an audit, not a check. Every state-machine function of the given scope -- with or
// without a contract -- is executed symbolically and held to the default run-time checks (index,
// slice, divzero); the sites that are not discharged are listed for triage. A site listed here is
// either imprecision (a loop without invariant, an abstract callee whose result length is unknown)
// or a panic reachable from some caller; nothing here decides a property.

import (
	"flag"
	"fmt"
	"os"
	"path/filepath"
	"sort"
	"strings"
	"time"
)

func CmdNpSweep(args []string) int {
	fs := flag.NewFlagSet("npsweep", flag.ExitOnError)
	pkgs := fs.String("pkgs", "", "comma separated package patterns (relative to /repo)")
	scope := fs.String("scope", "x/,util/", "function name prefixes")
	chunk := fs.String("chunk", "0/1", "i/n: take every n-th function starting at i")
	timeout := fs.Int("t", 5000, "solver timeout ms")
	fs.Parse(args)
	if !npSweep {
		fmt.Println("set GVC_NP_SWEEP=1")
		return 2
	}
	var ci, cn int
	fmt.Sscanf(*chunk, "%d/%d", &ci, &cn)
	if cn <= 0 {
		cn = 1
	}
	P, err := LoadProgram(strings.Split(*pkgs, ","))
	if err != nil {
		fmt.Println("load error:", err)
		return 2
	}
	if err := P.LoadTrusted(); err != nil {
		fmt.Println("trusted load error:", err)
		return 2
	}
	fns := stateMachineFuncs(P, ScanSpec{Args: map[string]string{"scope": *scope}})
	var names []string
	for _, f := range fns {
		if len(f.Blocks) > 0 {
			names = append(names, CanonName(f))
		}
	}
	sort.Strings(names)
	outDir := fmt.Sprintf("/verif/out/npsweep-%d", os.Getpid())
	defer os.RemoveAll(outDir)
	for i, name := range names {
		if i%cn != ci {
			continue
		}
		cfg := DefaultConfig()
		done := make(chan *FuncReport, 1)
		go func() {
			defer func() {
				if r := recover(); r != nil {
					fmt.Printf("PANIC %s: %v\n", name, r)
					done <- nil
				}
			}()
			done <- RunFunction(P, name, cfg, SolveOpts{OutDir: outDir, TimeoutMs: *timeout})
		}()
		select {
		case rep := <-done:
			os.RemoveAll(filepath.Join(outDir, mangle(name))) // the VC files of an audit run are not kept
			if rep == nil {
				continue
			}
			for _, r := range rep.Results {
				if r.Family == "F2" && r.Status != "discharged" {
					fmt.Printf("SITE %s %s %s %s\n", r.Status, r.Name, r.Pos, r.Backend)
				}
			}
			fmt.Printf("FUNC %s paths=%d truncated=%v\n", name, rep.Paths, rep.Truncated)
		case <-time.After(120 * time.Second):
			fmt.Printf("TIMEOUT %s\n", name)
			// the goroutine cannot be cancelled; it is left to finish on its own
		}
	}
	return 0
}
