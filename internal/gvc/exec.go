package gvc

// Modular symbolic executor over go/ssa. One function under contract at a time;
// callees by contract, by native model, by inlining (small repo functions and
// closures), or abstracted (havoc) — see DESIGN 2.4–2.6.

import (
	"fmt"
	"go/constant"
	"go/token"
	"go/types"
	"os"
	"sort"
	"strings"

	"golang.org/x/tools/go/ssa"
)

type Config struct {
	MaxPaths       int
	MaxInlineDepth int
	AutoInlineMax  int // max instruction count for auto inlining
	Inline         map[string]bool
	NoInline       map[string]bool
	UseContract    map[string]bool // callee canon names whose contract is applied at call sites even if small
	OverflowChecks bool
}

func DefaultConfig() *Config {
	return &Config{MaxPaths: 6000, MaxInlineDepth: 12, AutoInlineMax: 150, Inline: map[string]bool{}, NoInline: map[string]bool{}, UseContract: map[string]bool{}}
}

type Exec struct {
	nameOverride  string // the recorded name of a function under contract that moved (rename.go)
	siteBindings  []Val // captured-variable cells of the closure whose contract is being applied
	P       *Program
	D       *Decls
	S       *Sorts
	Cfg     *Config
	Top     *ssa.Function
	TopC    *Contract
	TopName string

	Obls          []*Obligation
	Abstracted    map[string]int // notes on abstractions used
	Inlined       map[string]int
	ByContract    map[string]int
	Trusted       map[string]int
	paths         int
	truncated     bool
	nref          int
	loopInfo      map[*ssa.Function]*loopTable
	effCache      map[*ssa.Function]int
	Unsupported   []string
	oblCount      map[string]int
	guardHits     map[string]int
	GhostSorts    map[string]string
	shiftFacts    [][3]Term
	epochBound    map[string]int // epoch symbol -> allocation counter when that havoc happened
	afterPats     []string
	sumFuns       map[string]map[string]bool // element sort -> sum functions declared by the spec builtins sum / sumfield
	specConsts    map[string]Val
	specFuns      map[string]specFun
	nquant, nsort int
	lastPerm      string
	pureFuns      map[string]*pureFun
	rets          []retState
	inTwin        bool
	nonEsc        map[*ssa.Function][]*ssa.Alloc
}

func NewExec(P *Program, cfg *Config) *Exec {
	d := NewDecls()
	return &Exec{P: P, D: d, S: NewSorts(d), Cfg: cfg, Abstracted: map[string]int{}, Inlined: map[string]int{}, ByContract: map[string]int{}, Trusted: map[string]int{}, loopInfo: map[*ssa.Function]*loopTable{}, effCache: map[*ssa.Function]int{}, oblCount: map[string]int{}, guardHits: map[string]int{}, GhostSorts: map[string]string{}, specConsts: map[string]Val{}, specFuns: map[string]specFun{}}
}

// ---------- loops ----------

type loopTable struct {
	headers map[int]*loopDesc // block index -> loop
	order   []*loopDesc       // source order
}

type loopDesc struct {
	header    *ssa.BasicBlock
	ordinal   int
	body      map[int]bool // block indices in the natural loop
	backPreds map[int]bool
}

func (x *Exec) loopsOf(fn *ssa.Function) *loopTable {
	if lt, ok := x.loopInfo[fn]; ok {
		return lt
	}
	lt := &loopTable{headers: map[int]*loopDesc{}}
	for _, b := range fn.Blocks {
		for _, s := range b.Succs {
			if s.Dominates(b) { // back edge b -> s
				ld := lt.headers[s.Index]
				if ld == nil {
					ld = &loopDesc{header: s, body: map[int]bool{s.Index: true}, backPreds: map[int]bool{}}
					lt.headers[s.Index] = ld
				}
				ld.backPreds[b.Index] = true
				// natural loop: nodes that reach b without passing s
				stack := []*ssa.BasicBlock{b}
				for len(stack) > 0 {
					n := stack[len(stack)-1]
					stack = stack[:len(stack)-1]
					if ld.body[n.Index] {
						continue
					}
					ld.body[n.Index] = true
					for _, p := range n.Preds {
						stack = append(stack, p)
					}
				}
			}
		}
	}
	for _, ld := range lt.headers {
		lt.order = append(lt.order, ld)
	}
	sort.Slice(lt.order, func(i, j int) bool {
		pi, pj := blockPos(lt.order[i].header), blockPos(lt.order[j].header)
		if pi != pj {
			return pi < pj
		}
		return lt.order[i].header.Index < lt.order[j].header.Index
	})
	for i, ld := range lt.order {
		ld.ordinal = i
	}
	x.loopInfo[fn] = lt
	return lt
}

func blockPos(b *ssa.BasicBlock) token.Pos {
	best := token.NoPos
	for _, in := range b.Instrs {
		if p := in.Pos(); p.IsValid() && (best == token.NoPos || p < best) {
			best = p
		}
	}
	if best == token.NoPos {
		// fall back to successors' first position
		for _, s := range b.Succs {
			for _, in := range s.Instrs {
				if p := in.Pos(); p.IsValid() && (best == token.NoPos || p < best) {
					best = p
				}
			}
		}
	}
	return best
}

// ---------- entry ----------

// VerifyFunction explores fn under its contract and collects obligations.
func (x *Exec) VerifyFunction(fn *ssa.Function, c *Contract) {
	x.Top, x.TopC, x.TopName = fn, c, CanonName(fn)
	if x.nameOverride != "" {
		x.TopName = x.nameOverride
	}
	if x.relationalWanted() && !x.inTwin {
		x.inTwin = true
		x.VerifyFunction(fn, c)
		run1 := x.rets
		x.rets = nil
		first := len(x.Obls)
		x.VerifyFunction(fn, c)
		run2 := x.rets
		// the second run re-emits the unary obligations: keep one copy
		x.Obls = x.Obls[:first]
		x.inTwin = false
		x.emitRelational(fn, run1, run2)
		return
	}
	if c != nil {
		if v, ok := c.Flags["max_paths"]; ok {
			cfg := *x.Cfg
			fmt.Sscan(v, &cfg.MaxPaths)
			x.Cfg = &cfg
		}
	}
	st := &State{heap: map[string]Term{}, callCounts: map[string]int{}}
	st.worlds = []WorldState{x.freshWorld("W0")}
	fr := &Frame{fn: fn, env: map[ssa.Value]Val{}, names: map[string]nameBinding{}, loopEntry: map[int]*loopSnap{}, contract: c}
	for _, p := range fn.Params {
		v := x.freshVal(st, p.Name(), p.Type())
		if _, ok := p.Type().Underlying().(*types.Pointer); ok && v.T.Sort == SRef {
			st.assume(App(SBool, "<=", App(SInt, "rid", v.T), IntLit(0)))
		}
		if _, ok := p.Type().Underlying().(*types.Map); ok && v.T.Sort == SRef {
			st.assume(App(SBool, "<=", App(SInt, "rid", v.T), IntLit(0)))
		}
		if v.T.Sort == SSlice {
			st.assume(App(SBool, "<=", App(SInt, "rid", App(SRef, "s.base", v.T)), IntLit(0)))
		}
		if isContextType(p.Type()) {
			v.World = 1
		}
		fr.env[p] = v
		fr.params = append(fr.params, v)
		fr.names[p.Name()] = nameBinding{v: v}
	}
	for _, fv := range fn.FreeVars {
		v := x.freshVal(st, fv.Name(), fv.Type())
		if _, ok := fv.Type().Underlying().(*types.Pointer); ok && v.T.Sort == SRef {
			// go/ssa captures variables by reference: a free variable is the address of the captured cell
			st.assume(Not(Eq(v.T, TNull)))
			st.assume(App(SBool, "<=", App(SInt, "rid", v.T), IntLit(0)))
		}
		// captured variables are different variables: their cells are pairwise distinct
		for _, other := range fr.freevars {
			if other.T.Sort == SRef && v.T.Sort == SRef {
				st.assume(Not(Eq(other.T, v.T)))
			}
		}
		fr.env[fv] = v
		fr.freevars = append(fr.freevars, v)
	}
	fr.block = fn.Blocks[0]
	st.frames = []*Frame{fr}
	fr.entryHeap = copyHeap(st.heap)
	fr.entryWorlds = copyWorlds(st.worlds)
	x.closureCreationFacts(st, fr)
	if c != nil {
		for _, cl := range c.Of("requires") {
			sc := x.scopeFor(st, fr)
			t, err := x.evalBool(st, fr, cl.E, sc)
			if err != nil {
				x.unsupported("requires of %s: %v", x.TopName, err)
				continue
			}
			st.assume(t)
		}
	}
	// vacuity guard: the assumptions at entry must be satisfiable (a *discharged* V obligation is an alarm)
	x.emit(st, fr, "V", "requires_sat", TFalse, fn.Blocks[0].Instrs[0])
	x.explore(st)
	// a guard whose callee pattern matched no call on any path guards nothing: report it as a
	// failed obligation instead of silently proving nothing
	if c != nil && !x.inTwin {
		for _, cl := range c.Of("guard_if_called") {
			// a clause about a callee today's code never calls holds trivially; the obligation
			// keeps its name so that the ledger knows it and a later caller is checked against it
			lbl := labelOr(cl, mangle(cl.Args[0]))
			if x.guardHits[lbl] == 0 {
				x.Obls = append(x.Obls, &Obligation{Name: x.TopName + "#F6.guard." + lbl, Family: "F6", Func: x.TopName, Goal: TTrue, Pos: "?", Trace: []string{"callee " + cl.Args[0] + " is not called on any explored path"}})
			}
		}
		for _, cl := range c.Of("guard") {
			lbl := labelOr(cl, mangle(cl.Args[0]))
			if x.guardHits[lbl] == 0 {
				x.Obls = append(x.Obls, &Obligation{Name: x.TopName + "#F6.guard." + lbl, Family: "F6", Func: x.TopName, Goal: TFalse, Pos: "?", Trace: []string{"guard pattern " + cl.Args[0] + " matched no call site on any explored path"}})
			}
		}
	}
}

func (x *Exec) unsupported(f string, a ...any) {
	s := fmt.Sprintf(f, a...)
	for _, u := range x.Unsupported {
		if u == s {
			return
		}
	}
	x.Unsupported = append(x.Unsupported, s)
}

func isContextType(t types.Type) bool {
	s := typeKey(t)
	return s == "context.Context" || s == "github.com/cosmos/cosmos-sdk/types.Context"
}

func (x *Exec) freshWorld(prefix string) WorldState {
	return WorldState{Ver: x.D.Fresh(prefix+".ver", SWorld), Ghost: map[string]Term{}}
}

func (x *Exec) newRef(st *State, hint string) Term {
	x.nref++
	r := x.D.Fresh("ref."+hint, SRef)
	st.assume(Eq(App(SInt, "rid", r), IntLit(int64(x.nref))))
	st.assume(Not(Eq(r, TNull)))
	// a new object is different from every reference the path has seen so far
	seen := map[string]bool{}
	for _, o := range st.seenRefs {
		if !seen[o.S] {
			seen[o.S] = true
			st.assume(Not(Eq(r, o)))
		}
	}
	return r
}

// freshVal creates an unconstrained value of a Go type with its type invariants assumed.
func (x *Exec) freshVal(st *State, hint string, t types.Type) Val {
	if tup, ok := t.(*types.Tuple); ok {
		v := Val{Typ: t, T: Term{"unit", SUnit}}
		for i := 0; i < tup.Len(); i++ {
			v.Tup = append(v.Tup, x.freshVal(st, fmt.Sprintf("%s.%d", hint, i), tup.At(i).Type()))
		}
		return v
	}
	sort := x.S.SortOf(t)
	v := Val{T: x.D.Fresh(hint, sort), Typ: t}
	x.assumeTyped(st, v)
	return v
}

// assumeTyped adds the type invariants of a freshly obtained value.
func (x *Exec) assumeTyped(st *State, v Val) {
	if v.Typ == nil {
		return
	}
	if r := rangeOf(v.Typ); r != nil && v.T.Sort == SInt {
		st.assume(r.inRange(v.T))
		return
	}
	switch v.T.Sort {
	case SSlice:
		st.assume(And(
			App(SBool, "<=", IntLit(0), App(SInt, "s.off", v.T)),
			App(SBool, "<=", IntLit(0), App(SInt, "s.len", v.T)),
			App(SBool, "<=", App(SInt, "s.len", v.T), App(SInt, "s.cap", v.T)),
			App(SBool, "<=", App(SInt, "s.cap", v.T), IntLitStr("4611686018427387904")),
			App(SBool, "<=", App(SInt, "s.off", v.T), IntLitStr("4611686018427387904")),
			Implies(Eq(App(SRef, "s.base", v.T), TNull), Eq(App(SInt, "s.cap", v.T), IntLit(0)))))
	case SStr:
		st.assume(And(App(SBool, "<=", IntLit(0), App(SInt, "str.len_", v.T)), App(SBool, "<=", App(SInt, "str.len_", v.T), IntLitStr("4611686018427387904"))))
	}
	if si := x.S.StructInfo(v.Typ); si != nil && v.T.Sort == si.sort {
		// range facts for integer fields one level down (cheap, helps arithmetic proofs)
		for i := 0; i < si.typ.NumFields(); i++ {
			ft := si.typ.Field(i).Type()
			if r := rangeOf(ft); r != nil {
				st.assume(r.inRange(App(SInt, x.S.fieldSel(si.sort, si.typ, i), v.T)))
			} else if si.fields[i] == SSlice {
				f := App(SSlice, x.S.fieldSel(si.sort, si.typ, i), v.T)
				st.assume(And(App(SBool, "<=", IntLit(0), App(SInt, "s.len", f)), App(SBool, "<=", IntLit(0), App(SInt, "s.off", f))))
			}
		}
	}
}

// define names an intermediate term with a fresh constant (keeps terms small).
func (x *Exec) define(st *State, hint string, t Term) Term {
	if len(t.S) < 48 {
		return t
	}
	c := x.D.Fresh(hint, t.Sort)
	st.assume(Eq(c, t))
	return c
}

// ---------- heap ----------

func (x *Exec) heapArr(st *State, name, sort string) Term {
	if t, ok := st.heap[name]; ok {
		return t
	}
	t := heapArrIn(x, st.heap, name, sort)
	st.heap[name] = t
	return t
}

// heapArrIn resolves a heap array lazily. Arrays never touched on this path resolve to a shared
// "<name>!init" constant (so old() and every path agree); after a havoc that could not name its
// targets (loop with calls) they resolve to a constant tied to the havoc epoch instead.
func heapArrIn(x *Exec, h map[string]Term, name, sort string) Term {
	if t, ok := h[name]; ok {
		return t
	}
	suffix := "!init"
	if e, ok := h["!ep:"+name]; ok {
		suffix = "!" + e.S
	} else if e, ok := h["!epoch"]; ok {
		suffix = "!" + e.S
	}
	cname := mangle(name) + suffix
	if !x.D.HasFun(cname) {
		x.D.DeclareFun(cname, nil, sort)
		if suffix == "!init" {
			x.initHeapFreshness(cname, sort, 0)
		} else if b, ok := x.epochBound[suffix[1:]]; ok {
			// after a havoc: whatever the forgotten region refers to existed when it was forgotten
			x.initHeapFreshness(cname, sort, b)
		}
	}
	return Term{cname, sort}
}

// initHeapFreshness: every reference stored anywhere in the entry heap is "old" (rid <= 0), so it
// can never alias an object allocated during the execution (rid > 0).
func (x *Exec) initHeapFreshness(cname, sort string, bound int) {
	k, v := splitArraySort(sort)
	if k != SRef {
		return
	}
	old := func(t string) string { return "(<= (rid " + t + ") 0)" }
	if bound > 0 {
		// an epoch array: references in it are objects that existed at the havoc (allocation ids up
		// to the bound) or came from outside (>= 1000000); later allocations get larger ids
		old = func(t string) string {
			return fmt.Sprintf("(or (<= (rid %[1]s) %[2]d) (>= (rid %[1]s) 1000000))", t, bound)
		}
	}
	switch {
	case v == SRef:
		x.D.Axiom(fmt.Sprintf("(forall ((r Ref)) (! %s :pattern ((select %s r))))", old("(select "+cname+" r)"), cname))
	case v == SSlice:
		x.D.Axiom(fmt.Sprintf("(forall ((r Ref)) (! %s :pattern ((select %s r))))", old("(s.base (select "+cname+" r))"), cname))
	case v == ArraySort(SInt, SRef):
		x.D.Axiom(fmt.Sprintf("(forall ((r Ref) (i Int)) (! %s :pattern ((select (select %s r) i))))", old("(select (select "+cname+" r) i)"), cname))
	case v == ArraySort(SInt, SSlice):
		x.D.Axiom(fmt.Sprintf("(forall ((r Ref) (i Int)) (! %s :pattern ((select (select %s r) i))))", old("(s.base (select (select "+cname+" r) i))"), cname))
	}
}

func (x *Exec) setHeap(st *State, name string, t Term) {
	st.heap[name] = x.define(st, "h."+name, t)
}

func (x *Exec) fieldArrName(si *structInfo, i int) (string, string) {
	return fmt.Sprintf("H.%s.%d", si.sort, i), ArraySort(SRef, si.fields[i])
}

// cellArrName: the heap array holding cells of the given sort. A cell holding a Go array ([N]T)
// lives in the element heap of T under the cell's own reference, indexed from 0 -- the same place a
// slice over it reads and writes -- so `a[:]`, copy(a[:], …) and a[i] alias as they do in Go.
func cellArrName(sort string) (string, string) {
	if strings.HasPrefix(sort, "(Array Int ") {
		_, v := splitArraySort(sort)
		return elemArrName(v)
	}
	return "C." + sort, ArraySort(SRef, sort)
}
func elemArrName(sort string) (string, string) {
	return "E." + sort, ArraySort(SRef, ArraySort(SInt, sort))
}

// lvalOf derives the lvalue a pointer value denotes.
func (x *Exec) lvalOf(p Val) *LVal {
	if p.LV != nil {
		return p.LV
	}
	var pt types.Type
	if p.Typ != nil {
		if ptr, ok := p.Typ.Underlying().(*types.Pointer); ok {
			pt = ptr.Elem()
		}
	}
	return &LVal{Kind: "obj", Root: p.T, RootT: pt}
}

type heapView struct {
	x *Exec
	h map[string]Term
}

func (hv heapView) arr(name, sort string) Term { return heapArrIn(hv.x, hv.h, name, sort) }

// loadLV reads an lvalue in a given heap.
func (x *Exec) loadLV(h map[string]Term, l *LVal) (Term, types.Type, error) {
	hv := heapView{x, h}
	var cur Term
	var ct types.Type
	path := l.Path
	switch l.Kind {
	case "global":
		sort := x.S.SortOf(l.RootT)
		cur = hv.arr("G."+l.Name, sort)
		ct = l.RootT
	case "elems":
		if len(path) == 0 || !path[0].isIdx {
			return Term{}, nil, fmt.Errorf("elems lvalue without index")
		}
		sort := x.S.SortOf(l.RootT)
		n, s := elemArrName(sort)
		cur = Select(Select(hv.arr(n, s), l.Root), path[0].idx)
		ct = l.RootT
		path = path[1:]
	default:
		if l.RootT == nil {
			return Term{}, nil, fmt.Errorf("untyped pointer")
		}
		if si := x.S.StructInfo(l.RootT); si != nil {
			if len(path) > 0 && !path[0].isIdx {
				f := path[0].field
				n, s := x.fieldArrName(si, f)
				cur = Select(hv.arr(n, s), l.Root)
				ct = si.typ.Field(f).Type()
				path = path[1:]
			} else {
				args := make([]Term, len(si.fields))
				for i := range si.fields {
					n, s := x.fieldArrName(si, i)
					args[i] = Select(hv.arr(n, s), l.Root)
				}
				cur = App(si.sort, "mk-"+si.sort, args...)
				ct = l.RootT
			}
		} else {
			sort := x.S.SortOf(l.RootT)
			n, s := cellArrName(sort)
			cur = Select(hv.arr(n, s), l.Root)
			ct = l.RootT
		}
	}
	for _, st := range path {
		if st.isIdx {
			at, ok := ct.Underlying().(*types.Array)
			if !ok {
				return Term{}, nil, fmt.Errorf("index step on non-array %s", ct)
			}
			cur = Select(cur, st.idx)
			ct = at.Elem()
		} else {
			si := x.S.StructInfo(ct)
			if si == nil {
				return Term{}, nil, fmt.Errorf("field step on non-struct %s", ct)
			}
			cur = App(si.fields[st.field], x.S.fieldSel(si.sort, si.typ, st.field), cur)
			ct = si.typ.Field(st.field).Type()
		}
	}
	return cur, ct, nil
}

// updatePath returns cur with the sub-value at path replaced by v.
func (x *Exec) updatePath(cur Term, ct types.Type, path []lstep, v Term) (Term, error) {
	if len(path) == 0 {
		return v, nil
	}
	st := path[0]
	if st.isIdx {
		at, ok := ct.Underlying().(*types.Array)
		if !ok {
			return Term{}, fmt.Errorf("index step on non-array %s", ct)
		}
		inner, err := x.updatePath(Select(cur, st.idx), at.Elem(), path[1:], v)
		if err != nil {
			return Term{}, err
		}
		return Store(cur, st.idx, inner), nil
	}
	si := x.S.StructInfo(ct)
	if si == nil {
		return Term{}, fmt.Errorf("field step on non-struct %s", ct)
	}
	args := make([]Term, len(si.fields))
	for i := range si.fields {
		sel := App(si.fields[i], x.S.fieldSel(si.sort, si.typ, i), cur)
		if i == st.field {
			inner, err := x.updatePath(sel, si.typ.Field(i).Type(), path[1:], v)
			if err != nil {
				return Term{}, err
			}
			args[i] = inner
		} else {
			args[i] = sel
		}
	}
	return App(si.sort, "mk-"+si.sort, args...), nil
}

func (x *Exec) storeLV(st *State, l *LVal, v Term) error {
	path := l.Path
	switch l.Kind {
	case "global":
		sort := x.S.SortOf(l.RootT)
		cur := x.heapArr(st, "G."+l.Name, sort)
		nv, err := x.updatePath(cur, l.RootT, path, v)
		if err != nil {
			return err
		}
		x.setHeap(st, "G."+l.Name, nv)
		return nil
	case "elems":
		if len(path) == 0 || !path[0].isIdx {
			return fmt.Errorf("elems lvalue without index")
		}
		sort := x.S.SortOf(l.RootT)
		n, s := elemArrName(sort)
		arr := x.heapArr(st, n, s)
		row := Select(arr, l.Root)
		nv, err := x.updatePath(Select(row, path[0].idx), l.RootT, path[1:], v)
		if err != nil {
			return err
		}
		x.setHeap(st, n, Store(arr, l.Root, Store(row, path[0].idx, nv)))
		return nil
	}
	if l.RootT == nil {
		return fmt.Errorf("store through untyped pointer")
	}
	if si := x.S.StructInfo(l.RootT); si != nil {
		if len(path) > 0 && !path[0].isIdx {
			f := path[0].field
			n, s := x.fieldArrName(si, f)
			arr := x.heapArr(st, n, s)
			nv, err := x.updatePath(Select(arr, l.Root), si.typ.Field(f).Type(), path[1:], v)
			if err != nil {
				return err
			}
			x.setHeap(st, n, Store(arr, l.Root, nv))
			return nil
		}
		// whole struct store
		for i := range si.fields {
			n, s := x.fieldArrName(si, i)
			arr := x.heapArr(st, n, s)
			x.setHeap(st, n, Store(arr, l.Root, App(si.fields[i], x.S.fieldSel(si.sort, si.typ, i), v)))
		}
		return nil
	}
	sort := x.S.SortOf(l.RootT)
	n, s := cellArrName(sort)
	arr := x.heapArr(st, n, s)
	nv, err := x.updatePath(Select(arr, l.Root), l.RootT, path, v)
	if err != nil {
		return err
	}
	x.setHeap(st, n, Store(arr, l.Root, nv))
	return nil
}

// havocObject forgets everything stored in the object a pointer refers to (one level).
func (x *Exec) havocObject(st *State, p Val) {
	l := x.lvalOf(p)
	if l.RootT == nil {
		return
	}
	t, ct, err := x.loadLV(st.heap, l)
	if err != nil {
		return
	}
	nv := x.freshVal(st, "havoc", ct)
	_ = t
	_ = x.storeLV(st, l, nv.T)
}

// ---------- machine ----------

func (x *Exec) explore(st *State) {
	for !st.dead {
		if x.paths > x.Cfg.MaxPaths {
			x.truncated = true
			return
		}
		fr := st.top()
		if fr.pc >= len(fr.block.Instrs) {
			x.unsupported("fell off block %d in %s", fr.block.Index, CanonName(fr.fn))
			return
		}
		ins := fr.block.Instrs[fr.pc]
		switch ins := ins.(type) {
		case *ssa.If:
			c := x.val(st, fr, ins.Cond)
			st2 := st.clone()
			tb, fb := fr.block.Succs[0], fr.block.Succs[1]
			if c.T.S != "false" {
				st.assume(c.T)
				st.note("b%d:%s then", fr.block.Index, x.P.Position(ins.Cond.Pos()))
				if x.jump(st, fr, tb) {
					if c.T.S == "true" {
						continue
					}
					x.explore(st)
				}
			}
			if c.T.S == "true" {
				x.paths++
				return
			}
			st = st2
			fr = st.top()
			st.assume(Not(c.T))
			st.note("b%d:%s else", fr.block.Index, x.P.Position(ins.Cond.Pos()))
			if !x.jump(st, fr, fb) {
				x.paths++
				return
			}
		case *ssa.Jump:
			if !x.jump(st, fr, fr.block.Succs[0]) {
				x.paths++
				return
			}
		case *ssa.Return:
			var res []Val
			for _, r := range ins.Results {
				res = append(res, x.val(st, fr, r))
			}
			if !x.doReturn(st, fr, res) {
				x.paths++
				return
			}
		case *ssa.Panic:
			x.doPanic(st, fr, ins, "explicit panic")
			x.paths++
			return
		case *ssa.RunDefers:
			if len(fr.defers) == 0 {
				fr.pc++
				continue
			}
			d := fr.defers[len(fr.defers)-1]
			fr.defers = fr.defers[:len(fr.defers)-1]
			// execute deferred call; stay on this instruction afterwards
			pushed := x.call(st, fr, ins, d.call, d.fn, d.args, func(Val) {})
			if st.dead {
				x.paths++
				return
			}
			_ = pushed
		default:
			if !x.step(st, fr, ins) {
				x.paths++
				return
			}
		}
	}
}

// jump moves the top frame to block b, handling phis and loop headers. Returns false if the path ends.
func (x *Exec) jump(st *State, fr *Frame, b *ssa.BasicBlock) bool {
	from := fr.block
	lt := x.loopsOf(fr.fn)
	ld := lt.headers[b.Index]
	// compute phi values along this edge
	predIdx := -1
	for i, p := range b.Preds {
		if p == from {
			predIdx = i
			break
		}
	}
	phiVals := map[*ssa.Phi]Val{}
	for _, in := range b.Instrs {
		phi, ok := in.(*ssa.Phi)
		if !ok {
			break
		}
		if predIdx >= 0 {
			phiVals[phi] = x.val(st, fr, phi.Edges[predIdx])
		}
	}
	if ld != nil {
		isBack := ld.backPreds[from.Index]
		ref := x.loopRef(st, fr, ld)
		invs, decs := x.loopClauses(st, fr, ld)
		vars := x.phiScope(b, phiVals)
		if isBack {
			// preservation
			for _, cl := range invs {
				sc := x.scopeFor(st, fr)
				sc.addVars(vars)
				t, err := x.evalBool(st, fr, cl.E, sc)
				if err != nil {
					x.unsupported("loop %s invariant in %s: %v", ref, CanonName(fr.fn), err)
					continue
				}
				x.emit(st, fr, "F1", "loop"+ref+".preserve."+labelOr(cl, "inv"), t, in0(b))
			}
			if snap := fr.loopEntry[b.Index]; snap != nil {
				for i, cl := range decs {
					sc := x.scopeFor(st, fr)
					sc.addVars(vars)
					v, err := x.evalSpec(st, fr, cl.E, sc)
					if err != nil || i >= len(snap.decr) {
						continue
					}
					x.emit(st, fr, "F1", "loop"+ref+".decreases", And(App(SBool, "<", v.T, snap.decr[i]), App(SBool, "<=", IntLit(0), snap.decr[i])), in0(b))
				}
			}
			if len(invs) > 0 || len(x.iterClauses(st, fr, ld)) > 0 {
				x.emit(st, fr, "V", "reach.loop"+ref+".body", TFalse, in0(b))
			}
			// per-iteration postconditions: what must hold whenever an iteration completes
			for _, cl := range x.iterClauses(st, fr, ld) {
				sc := x.scopeFor(st, fr)
				sc.addVars(vars)
				// head_<name>: the value the loop variable had when this iteration started
				for _, in := range b.Instrs {
					phi, ok := in.(*ssa.Phi)
					if !ok {
						break
					}
					if hv, ok := fr.env[phi]; ok && phi.Comment != "" && phi.Comment != "rangeindex" {
						sc.vars["head_"+phi.Comment] = hv
					}
				}
				if snap := fr.loopEntry[b.Index]; snap != nil {
					sc.headHeap, sc.headWorlds = snap.heap, snap.worlds
					sc.headCounts, sc.headSyms = snap.counts, snap.syms
				}
				t, err := x.evalBool(st, fr, cl.E, sc)
				if err != nil {
					x.unsupported("loop %s back_edge_ensures in %s: %v", ref, CanonName(fr.fn), err)
					t = TFalse
				}
				x.emit(st, fr, "F1", "loop"+ref+".iteration."+labelOr(cl, "post"), t, in0(b))
			}
			x.clearContinuesAfter(st, fr, ref, in0(b))
			st.note("loop %s back edge: path ends", ref)
			return false
		}
		// entry: assert invariants
		for _, cl := range invs {
			sc := x.scopeFor(st, fr)
			sc.addVars(vars)
			t, err := x.evalBool(st, fr, cl.E, sc)
			if err != nil {
				x.unsupported("loop %s invariant in %s: %v", ref, CanonName(fr.fn), err)
				continue
			}
			x.emit(st, fr, "F1", "loop"+ref+".init."+labelOr(cl, "inv"), t, in0(b))
		}
		// havoc loop targets
		x.havocLoop(st, fr, ld)
		for _, hin := range b.Instrs { // in block order: the numbering of fresh symbols is reproducible
			phi, isPhi := hin.(*ssa.Phi)
			if !isPhi {
				break
			}
			if _, tracked := phiVals[phi]; !tracked {
				continue
			}
			phiVals[phi] = x.freshVal(st, "phi."+phi.Comment, phi.Type())
			// whatever object a merged variable refers to exists already: later allocations differ from it
			x.sawRef(st, phiVals[phi])
		}
		// structural fact for range-index loops: index phi >= -1
		for phi, v := range phiVals {
			if phi.Comment == "rangeindex" {
				st.assume(App(SBool, ">=", v.T, IntLit(-1)))
				// the index only advances while it is below the length of the ranged-over value,
				// and lengths are bounded by 2^62 (type invariant of slices/strings)
				st.assume(App(SBool, "<=", v.T, IntLitStr("4611686018427387904")))
				// ... precisely: `if index+1 < n` with n evaluated before the loop, so index < n at the head
				for _, hin := range b.Instrs {
					cmp, ok := hin.(*ssa.BinOp)
					if !ok || cmp.Op != token.LSS {
						continue
					}
					inc, ok := cmp.X.(*ssa.BinOp)
					if !ok || inc.Op != token.ADD || inc.X != ssa.Value(phi) {
						continue
					}
					if n, ok := fr.env[cmp.Y]; ok && n.T.Sort == SInt {
						st.assume(App(SBool, "<", v.T, n.T))
					}
				}
			}
		}
		// structural fact for counting loops: a variable that starts at a constant and is only ever
		// incremented by a positive constant inside the loop is never below its start value (wrap-around
		// would take 2^63 iterations)
		for phi, v := range phiVals {
			if phi.Comment == "rangeindex" || v.T.Sort != SInt || len(phi.Edges) != 2 {
				continue
			}
			var start *ssa.Const
			stepOK := false
			for ei, e := range phi.Edges {
				pred := b.Preds[ei]
				if ld.body[pred.Index] {
					if add, ok := e.(*ssa.BinOp); ok && add.Op == token.ADD && add.X == ssa.Value(phi) {
						if k, ok := add.Y.(*ssa.Const); ok && k.Value != nil && k.Int64() > 0 {
							stepOK = true
						}
					}
				} else if c, ok := e.(*ssa.Const); ok && c.Value != nil {
					start = c
				}
			}
			if start != nil && stepOK {
				st.assume(App(SBool, ">=", v.T, IntLit(start.Int64())))
			}
		}
		vars = x.phiScope(b, phiVals)
		// a source variable merged at the loop head now has the (arbitrary) value of its phi: local(name)
		// must not keep referring to the value it had before the loop
		for phi, v := range phiVals {
			if phi.Comment != "" && phi.Comment != "rangeindex" {
				if _, bound := fr.names[phi.Comment]; bound {
					fr.names[phi.Comment] = nameBinding{v: v}
				}
			}
		}
		for _, cl := range invs {
			sc := x.scopeFor(st, fr)
			sc.addVars(vars)
			t, err := x.evalBool(st, fr, cl.E, sc)
			if err != nil {
				continue
			}
			st.assume(t)
		}
		snap := &loopSnap{heap: copyHeap(st.heap), worlds: copyWorlds(st.worlds), counts: map[string]int{}, syms: map[string]Term{}}
		for k, v := range st.callCounts {
			snap.counts[k] = v
		}
		for k, v := range st.callSyms {
			snap.syms[k] = v
		}
		for _, cl := range decs {
			sc := x.scopeFor(st, fr)
			sc.addVars(vars)
			v, err := x.evalSpec(st, fr, cl.E, sc)
			if err != nil {
				continue
			}
			snap.decr = append(snap.decr, x.define(st, "decr", v.T))
		}
		fr.loopEntry[b.Index] = snap
	}
	for phi, v := range phiVals {
		fr.env[phi] = v
		if fr.stamps == nil {
			fr.stamps = map[ssa.Value]int{}
		}
		fr.nstamp++
		fr.stamps[phi] = fr.nstamp
	}
	fr.prev = from
	fr.block = b
	fr.pc = 0
	for fr.pc < len(b.Instrs) {
		if _, ok := b.Instrs[fr.pc].(*ssa.Phi); ok {
			fr.pc++
		} else {
			break
		}
	}
	return true
}

func in0(b *ssa.BasicBlock) ssa.Instruction {
	if len(b.Instrs) > 0 {
		return b.Instrs[0]
	}
	return nil
}

func labelOr(cl Clause, d string) string {
	if cl.Label != "" {
		return cl.Label
	}
	return d + shortHash(cl.Text)[:4]
}

// phiScope exposes loop-header phis to invariants by their source names. For range loops the
// pseudo-variable `it` is the number of completed iterations (rangeindex+1).
func (x *Exec) phiScope(b *ssa.BasicBlock, phiVals map[*ssa.Phi]Val) map[string]Val {
	vars := map[string]Val{}
	for phi, v := range phiVals {
		if phi.Comment == "rangeindex" {
			vars["it"] = Val{T: App(SInt, "+", v.T, IntLit(1)), Typ: v.Typ}
			continue
		}
		if phi.Comment != "" {
			vars[phi.Comment] = v
		}
	}
	if _, ok := vars["it"]; !ok {
		// `for i := 0; i < n; i++` written out instead of `range`: the counter is the number of
		// completed iterations, which is what `it` means (only when exactly one such counter exists)
		var cnt []Val
		for phi, v := range phiVals {
			if len(phi.Edges) != 2 || v.T.Sort != SInt {
				continue
			}
			zero, step := false, false
			for _, e := range phi.Edges {
				if c, ok := e.(*ssa.Const); ok && c.Value != nil && c.Int64() == 0 {
					zero = true
				}
				if add, ok := e.(*ssa.BinOp); ok && add.Op == token.ADD && add.X == ssa.Value(phi) {
					if k, ok := add.Y.(*ssa.Const); ok && k.Value != nil && k.Int64() == 1 {
						step = true
					}
				}
			}
			if zero && step {
				cnt = append(cnt, v)
			}
		}
		if len(cnt) == 1 {
			vars["it"] = cnt[0]
		}
	}
	return vars
}

func (x *Exec) loopClauses(st *State, fr *Frame, ld *loopDesc) (invs, decs []Clause) {
	ref := x.loopRef(st, fr, ld)
	if c := x.loopContract(st, fr); c != nil {
		invs = append(invs, c.LoopClauses(ref, "invariant")...)
		decs = append(decs, c.LoopClauses(ref, "decreases")...)
	}
	if fr != st.frames[0] && x.TopC != nil && !x.inNewHelperChain(st, fr) {
		// loops of an inlined helper, specified by the function under contract: "helper#0"
		hr := fr.fn.Name() + "#" + ref
		invs = append(invs, x.TopC.LoopClauses(hr, "invariant")...)
		decs = append(decs, x.TopC.LoopClauses(hr, "decreases")...)
	}
	return
}

// havocLoop forgets heap regions and worlds that the loop body may modify.
// loopCallees: names of the callees a loop body can reach -- its own call sites and, transitively
// (bounded depth), those of static callees and closures with a body, since they may be inlined.
func (x *Exec) loopCallees(fr *Frame, ld *loopDesc) map[string]bool {
	out := map[string]bool{}
	seen := map[*ssa.Function]bool{}
	var visitFn func(fn *ssa.Function, depth int)
	visitInstr := func(in ssa.Instruction, depth int) {
		var cc *ssa.CallCommon
		switch c := in.(type) {
		case *ssa.Call:
			cc = c.Common()
		case *ssa.Defer:
			cc = c.Common()
		case *ssa.Go:
			cc = c.Common()
		case *ssa.MakeClosure:
			if f, ok := c.Fn.(*ssa.Function); ok {
				out[CanonName(f)] = true
				visitFn(f, depth+1)
			}
			return
		}
		if cc == nil {
			return
		}
		name := staticCalleeName(cc)
		if name == "" {
			name = "<dynamic>"
		}
		out[name] = true
		if cc.IsInvoke() {
			// a statically known dynamic type turns the invoke into a concrete method: same method name
			out["*."+cc.Method.Name()] = true
		}
		if f := cc.StaticCallee(); f != nil {
			// only a callee that can be inlined contributes its own calls: a pure callee is a
			// function symbol, a callee under contract is applied by its contract
			if _, pure := x.purePattern(name); pure {
				return
			}
			if c, ok := x.contractOf(name); ok {
				if _, inl := c.Flags["inline"]; !inl {
					return
				}
			}
			visitFn(f, depth+1)
		}
	}
	visitFn = func(fn *ssa.Function, depth int) {
		if fn == nil || seen[fn] || depth > 4 || fn.Blocks == nil {
			return
		}
		seen[fn] = true
		for _, b := range fn.Blocks {
			for _, in := range b.Instrs {
				visitInstr(in, depth)
			}
		}
	}
	for bi := range ld.body {
		for _, in := range fr.fn.Blocks[bi].Instrs {
			visitInstr(in, 0)
		}
	}
	if out["<dynamic>"] {
		// a call through a function value may be one of the function's own closures
		for _, an := range fr.fn.AnonFuncs {
			out[CanonName(an)] = true
			visitFn(an, 1)
		}
		out["<commit>"] = true
	}
	return out
}

// forgetLoopCalls: what the path knows about calls to callees the loop body can reach -- how many
// there were, what the last one was handed and returned -- is not true any more once iterations of
// the loop are cut away: the count becomes a symbol (at least what it was), the records are dropped.
func (x *Exec) forgetLoopCalls(st *State, fr *Frame, ld *loopDesc) {
	names := x.loopCallees(fr, ld)
	if len(names) == 0 {
		return
	}
	match := func(callee string) bool {
		if names[callee] {
			return true
		}
		if i := strings.LastIndex(callee, ")."); i >= 0 && names["*."+callee[i+2:]] {
			return true
		}
		return false
	}
	if st.callSyms == nil {
		st.callSyms = map[string]Term{}
	}
	touchedNames := map[string]bool{}
	for n := range names {
		if !strings.HasPrefix(n, "*.") {
			touchedNames[n] = true
		}
	}
	for k := range st.callCounts {
		if strings.HasPrefix(k, "n:") && match(k[2:]) {
			touchedNames[k[2:]] = true
		}
	}
	for _, n := range sortedKeys(touchedNames) {
		prev := IntLit(int64(st.callCounts["n:"+n]))
		if old, ok := st.callSyms[n]; ok {
			prev = App(SInt, "+", prev, old)
		}
		sym := x.D.Fresh("ncalls", SInt)
		st.assume(App(SBool, ">=", sym, prev))
		st.callSyms[n] = sym
		delete(st.callCounts, "n:"+n)
	}
	for k := range st.meta {
		for _, pre := range []string{"ret:", "args:", "prevargs:"} {
			if strings.HasPrefix(k, pre) && match(k[len(pre):]) {
				delete(st.meta, k)
			}
		}
	}
	for k := range st.retHeaps {
		if match(k) {
			delete(st.retHeaps, k)
		}
	}
}

func (x *Exec) havocLoop(st *State, fr *Frame, ld *loopDesc) {
	if os.Getenv("GVC_KEEP_LOOP_CALLS") == "" {
		x.forgetLoopCalls(st, fr, ld)
	}
	writes := map[string]bool{}
	callsUnknown := false
	worldCalls := false
	frameRegions := map[string]bool{} // heap arrays named by the modifies clauses of callees under contract
	for bi := range ld.body {
		for _, in := range fr.fn.Blocks[bi].Instrs {
			switch in := in.(type) {
			case *ssa.Store:
				writes["store:"+typeKey(in.Addr.Type())] = true
			case *ssa.MapUpdate:
				writes["map"] = true
			case *ssa.Call:
				if x.callIsHeapNeutral(in.Common()) {
					break
				}
				if regs, ok := x.calleeFrameArrays(in.Common()); ok {
					for _, r := range regs {
						frameRegions[r] = true
					}
					break
				}
				if regs, ok := x.abstractCallFrame(st, in.Common()); ok {
					// a callee without contract that will be abstracted at the call: same frame as
					// callAbstract applies outside loops — the objects its pointer arguments refer
					// to, and the worlds it is handed
					for _, r := range regs {
						frameRegions[r] = true
					}
					if x.abstractCallWritesWorld(in.Common()) {
						worldCalls = true
					}
					break
				}
				callsUnknown = true
			case *ssa.Defer, *ssa.Go:
				callsUnknown = true
			case *ssa.Send:
				callsUnknown = true
			}
		}
	}
	// Precise frame inference over the field-array heap: every array that some Store in the body can
	// touch is havocked. We approximate by pointer type of the store address.
	touched := map[string]bool{}
	var updatedMaps []Val
	for bi := range ld.body {
		for _, in := range fr.fn.Blocks[bi].Instrs {
			if s, ok := in.(*ssa.Store); ok {
				for _, n := range x.arraysForAddr(st, fr, s.Addr) {
					touched[n] = true
				}
			}
			var um ssa.Value
			if mu, ok := in.(*ssa.MapUpdate); ok {
				um = mu.Map
			}
			if c, ok := in.(*ssa.Call); ok {
				if b, ok := c.Call.Value.(*ssa.Builtin); ok && b.Name() == "delete" && len(c.Call.Args) > 0 {
					um = c.Call.Args[0]
				}
			}
			if um != nil {
				// a map update writes one map: only the rows of that map are forgotten (a map
				// created inside the body has no row to forget yet)
				if mv, ok := fr.env[um]; ok && mv.T.Sort == SRef {
					updatedMaps = append(updatedMaps, mv)
				} else if inst, isInst := um.(ssa.Instruction); !(isInst && inst.Block() != nil && ld.body[inst.Block().Index]) {
					// defined outside the loop but not evaluated: be conservative
					for n := range st.heap {
						if strings.HasPrefix(n, "MD.") || strings.HasPrefix(n, "MV.") {
							touched[n] = true
						}
					}
					touched["MD.*"] = true
				}
			}
		}
	}
	for r := range frameRegions {
		touched[r] = true
	}
	if worldCalls && !callsUnknown {
		for i := range x.loopWorlds(st, fr, ld) {
			st.worlds[i] = x.freshWorld(fmt.Sprintf("W%d.loop", i))
		}
	}
	if callsUnknown {
		// calls inside the loop: be conservative — all heap arrays and all worlds
		for n := range st.heap {
			touched[n] = true
		}
		for i := range x.loopWorlds(st, fr, ld) {
			st.worlds[i] = x.freshWorld(fmt.Sprintf("W%d.loop", i))
		}
		touched["*"] = true
	}
	// locals whose address never leaves the function and that the loop body does not store to keep
	// their value across the loop, whatever the body calls
	type kept struct {
		lv *LVal
		t  Term
	}
	var keep []kept
	if touched["*"] {
		stored := map[*ssa.Alloc]bool{}
		for bi := range ld.body {
			for _, in := range fr.fn.Blocks[bi].Instrs {
				if s, ok := in.(*ssa.Store); ok {
					if a := rootAlloc(s.Addr); a != nil {
						stored[a] = true
					}
				}
			}
		}
		for _, a := range x.nonEscapingAllocs(fr.fn) {
			if stored[a] {
				continue
			}
			v, ok := fr.env[a]
			if !ok || v.LV == nil {
				continue
			}
			if t, _, err := x.loadLV(st.heap, v.LV); err == nil {
				keep = append(keep, kept{v.LV, x.define(st, "keep", t)})
			}
		}
	}
	// local maps (make(map...) whose reference never leaves the function) that the loop body does
	// not update keep their contents
	type keptMap struct {
		name string
		ref  Term
		row  Term
	}
	var keepMaps []keptMap
	if touched["*"] || touched["MD.*"] {
		updated := map[ssa.Value]bool{}
		for bi := range ld.body {
			for _, in := range fr.fn.Blocks[bi].Instrs {
				switch in := in.(type) {
				case *ssa.MapUpdate:
					updated[in.Map] = true
				case *ssa.Call:
					if b, ok := in.Call.Value.(*ssa.Builtin); ok && b.Name() == "delete" && len(in.Call.Args) > 0 {
						updated[in.Call.Args[0]] = true
					}
				}
			}
		}
		for _, mm := range x.localMaps(fr.fn) {
			if updated[mm] {
				continue
			}
			v, ok := fr.env[mm]
			if !ok {
				continue
			}
			for _, n := range sortedKeys(st.heap) {
				if strings.HasPrefix(n, "MD.") || strings.HasPrefix(n, "MV.") {
					keepMaps = append(keepMaps, keptMap{n, v.T, x.define(st, "keepmap", Select(st.heap[n], v.T))})
				}
			}
		}
	}
	defer func() {
		for _, k := range keep {
			_ = x.storeLV(st, k.lv, k.t)
		}
		for _, km := range keepMaps {
			arr := x.heapArr(st, km.name, ArraySort(SRef, km.row.Sort))
			x.setHeap(st, km.name, Store(arr, km.ref, km.row))
		}
	}()
	if x.epochBound == nil {
		x.epochBound = map[string]int{}
	}
	if touched["*"] {
		ep := x.D.Fresh("epoch", SInt)
		x.epochBound[ep.S] = x.nref
		for n := range st.heap {
			if strings.HasPrefix(n, "!") {
				continue
			}
			delete(st.heap, n)
		}
		st.heap["!epoch"] = ep
	} else {
		for _, n := range sortedKeys(touched) {
			if n == "MD.*" {
				continue
			}
			delete(st.heap, n)
			ep := x.D.Fresh("epoch", SInt)
			x.epochBound[ep.S] = x.nref
			st.heap["!ep:"+n] = ep
		}
		if !touched["MD.*"] {
			for _, mv := range updatedMaps {
				mt, ok := mv.Typ.Underlying().(*types.Map)
				if !ok {
					continue
				}
				ks, vs := x.S.SortOf(mt.Key()), x.S.SortOf(mt.Elem())
				dn, ds := "MD."+ks, ArraySort(SRef, ArraySort(ks, SBool))
				vn, vsrt := "MV."+ks+"."+vs, ArraySort(SRef, ArraySort(ks, vs))
				x.setHeap(st, dn, Store(x.heapArr(st, dn, ds), mv.T, x.D.Fresh("maprow", ArraySort(ks, SBool))))
				x.setHeap(st, vn, Store(x.heapArr(st, vn, vsrt), mv.T, x.D.Fresh("maprow", ArraySort(ks, vs))))
			}
		}
	}
}

// arraysForAddr lists heap array names a store through addr may write.
func (x *Exec) arraysForAddr(st *State, fr *Frame, addr ssa.Value) []string {
	switch a := addr.(type) {
	case *ssa.FieldAddr:
		pt := a.X.Type().Underlying().(*types.Pointer).Elem()
		// walk up nested FieldAddr chains to the root object
		root := a
		for {
			if up, ok := root.X.(*ssa.FieldAddr); ok {
				root = up
				continue
			}
			break
		}
		rpt := root.X.Type().Underlying().(*types.Pointer).Elem()
		if si := x.S.StructInfo(rpt); si != nil {
			n, _ := x.fieldArrName(si, root.Field)
			return []string{n}
		}
		_ = pt
	case *ssa.IndexAddr:
		switch t := a.X.Type().Underlying().(type) {
		case *types.Slice:
			n, _ := elemArrName(x.S.SortOf(t.Elem()))
			return []string{n}
		case *types.Pointer:
			n, _ := cellArrName(x.S.SortOf(t.Elem()))
			return []string{n}
		}
	case *ssa.Alloc:
		pt := a.Type().Underlying().(*types.Pointer).Elem()
		if si := x.S.StructInfo(pt); si != nil {
			var out []string
			for i := range si.fields {
				n, _ := x.fieldArrName(si, i)
				out = append(out, n)
			}
			return out
		}
		n, _ := cellArrName(x.S.SortOf(pt))
		return []string{n}
	case *ssa.Global:
		return []string{"G." + a.Pkg.Pkg.Path() + "." + a.Name()}
	}
	// parameter / loaded pointer / free variable
	if pt, ok := addr.Type().Underlying().(*types.Pointer); ok {
		if si := x.S.StructInfo(pt.Elem()); si != nil {
			var out []string
			for i := range si.fields {
				n, _ := x.fieldArrName(si, i)
				out = append(out, n)
			}
			return out
		}
		n, _ := cellArrName(x.S.SortOf(pt.Elem()))
		return []string{n}
	}
	return nil
}

// ---------- values ----------

func (x *Exec) val(st *State, fr *Frame, v ssa.Value) Val {
	switch v := v.(type) {
	case *ssa.Const:
		return x.constVal(v)
	case *ssa.Function:
		t := x.fnTerm(v)
		return Val{T: t, Typ: v.Type(), Fn: v}
	case *ssa.Global:
		name := v.Pkg.Pkg.Path() + "." + v.Name()
		pt := v.Type().Underlying().(*types.Pointer).Elem()
		cn := "gaddr_" + mangle(name)
		x.D.DeclareFun(cn, nil, SRef)
		return Val{T: Term{cn, SRef}, Typ: v.Type(), LV: &LVal{Kind: "global", RootT: pt, Name: name}}
	case *ssa.Builtin:
		return Val{T: Term{"unit", SUnit}, Typ: v.Type()}
	}
	if val, ok := fr.env[v]; ok {
		return val
	}
	// free variables of closures are bound at frame creation; anything else is unknown
	x.unsupported("unbound ssa value %s (%T) in %s", v.Name(), v, CanonName(fr.fn))
	nv := x.freshVal(st, "unbound."+v.Name(), v.Type())
	fr.env[v] = nv
	return nv
}

func (x *Exec) fnTerm(f *ssa.Function) Term {
	n := "fn_" + mangle(CanonName(f))
	if len(n) > 100 {
		n = n[:80] + shortHash(n)
	}
	x.D.DeclareFun(n, nil, SFn)
	return Term{n, SFn}
}

func (x *Exec) constVal(c *ssa.Const) Val {
	t := c.Type()
	if c.Value == nil {
		return Val{T: x.S.Zero(t), Typ: t}
	}
	switch c.Value.Kind() {
	case constant.Bool:
		if constant.BoolVal(c.Value) {
			return Val{T: TTrue, Typ: t}
		}
		return Val{T: TFalse, Typ: t}
	case constant.Int:
		sort := x.S.SortOf(t)
		if sort == SReal {
			return Val{T: Term{c.Value.ExactString() + ".0", SReal}, Typ: t}
		}
		s := c.Value.ExactString()
		return Val{T: IntLitStr(s), Typ: t}
	case constant.String:
		sv := constant.StringVal(c.Value)
		if x.S.SortOf(t) != SStr {
			return Val{T: x.S.Zero(t), Typ: t}
		}
		return Val{T: x.S.StrLit(sv), Typ: t}
	case constant.Float:
		if x.S.SortOf(t) == SInt {
			if i, ok := constant.Int64Val(constant.ToInt(c.Value)); ok {
				return Val{T: IntLit(i), Typ: t}
			}
		}
		r := constant.ToFloat(c.Value)
		num, den := constant.Num(r), constant.Denom(r)
		ns, ds := num.ExactString(), den.ExactString()
		neg := strings.HasPrefix(ns, "-")
		if neg {
			ns = ns[1:]
		}
		s := fmt.Sprintf("(/ %s.0 %s.0)", ns, ds)
		if neg {
			s = "(- " + s + ")"
		}
		return Val{T: Term{s, SReal}, Typ: t}
	}
	return Val{T: x.S.Zero(t), Typ: t}
}

// ---------- obligations ----------

func (x *Exec) emit(st *State, fr *Frame, family, label string, goal Term, at ssa.Instruction) {
	if goal.S == "true" {
		// still count as an obligation discharged syntactically
		name := x.TopName + "#" + family + "." + label
		x.Obls = append(x.Obls, &Obligation{Name: name, Family: family, Func: x.TopName, Goal: goal, Pos: x.posOf(at), Note: "syntactic"})
		return
	}
	name := x.TopName + "#" + family + "." + label
	o := &Obligation{Name: name, Family: family, Func: x.TopName, Facts: st.facts[:len(st.facts):len(st.facts)], Goal: goal, Trace: st.trace[:len(st.trace):len(st.trace)], Pos: x.posOf(at)}
	x.Obls = append(x.Obls, o)
}

func (x *Exec) posOf(in ssa.Instruction) string {
	if in == nil {
		return "?"
	}
	p := in.Pos()
	if !p.IsValid() {
		// search the block for a valid position
		if b := in.Block(); b != nil {
			for _, i2 := range b.Instrs {
				if i2.Pos().IsValid() {
					return x.P.Position(i2.Pos())
				}
			}
		}
	}
	return x.P.Position(p)
}

// siteLabel builds a stable ordinal-based site label: kind + ordinal among same kind in the top function path-independent.
func (x *Exec) siteLabel(fr *Frame, in ssa.Instruction, kind string) string {
	// ordinal of this instruction among instructions of the same go type within its function
	n := 0
	for _, b := range fr.fn.Blocks {
		for _, i2 := range b.Instrs {
			if i2 == in {
				pre := ""
				if fr.fn != x.Top {
					pre = fr.fn.Name() + "."
				}
				return fmt.Sprintf("%s%s%d", pre, kind, n)
			}
			if sameKind(i2, in) {
				n++
			}
		}
	}
	return kind
}

func sameKind(a, b ssa.Instruction) bool {
	if fmt.Sprintf("%T", a) != fmt.Sprintf("%T", b) {
		return false
	}
	if ba, ok := a.(*ssa.BinOp); ok {
		bb := b.(*ssa.BinOp)
		div := func(t token.Token) bool { return t == token.QUO || t == token.REM }
		return div(ba.Op) == div(bb.Op)
	}
	return true
}

func (x *Exec) noPanic(fr *Frame) bool {
	if x.TopC == nil {
		return npSweep // audit mode (gvc npsweep): every function is held to the default run-time checks
	}
	_, ok := x.TopC.Flags["no_panic"]
	if !ok && defaultNoPanic != "" {
		if _, out := x.TopC.Flags["may_panic"]; !out {
			return true
		}
	}
	return ok
}

// defaultNoPanic: the kinds of run-time check every function under contract is held to even without
// a no_panic clause (a postcondition says nothing about an input on which the function panics, so a
// change that turns an error return into an out-of-range panic would otherwise keep verifying);
// `may_panic "<why>"` opts a function out.
var npSweep = os.Getenv("GVC_NP_SWEEP") != ""

var defaultNoPanic = func() string {
	if v, ok := os.LookupEnv("GVC_DEFAULT_NOPANIC"); ok {
		return v
	}
	return "index, slice, divzero"
}()

// noPanicKind: `no_panic` alone covers every kind of run-time check; `no_panic index, slice, divzero`
// restricts the F2 obligations to the listed kinds (the others are then assumptions of the claim).
func (x *Exec) noPanicKind(kind string) bool {
	if x.TopC == nil {
		for _, k := range strings.Fields(strings.ReplaceAll(defaultNoPanic, ",", " ")) {
			if k == kind {
				return true
			}
		}
		return false
	}
	v, has := x.TopC.Flags["no_panic"]
	v = strings.TrimSpace(v)
	if !has {
		v = defaultNoPanic
	}
	if v == "" {
		return true
	}
	for _, k := range strings.Fields(strings.ReplaceAll(v, ",", " ")) {
		if k == kind {
			return true
		}
	}
	return false
}

// safety emits an F2 obligation when the function under contract demands no_panic.
func (x *Exec) safety(st *State, fr *Frame, in ssa.Instruction, kind string, cond Term) {
	if x.noPanic(fr) && x.noPanicKind(kind) {
		x.emit(st, fr, "F2", x.siteLabel(fr, in, kind), cond, in)
	}
	// execution continues past a run-time check only when it passed
	st.assume(cond)
}

func (x *Exec) doPanic(st *State, fr *Frame, in ssa.Instruction, why string) {
	st.note("panic: %s", why)
	// a panic is a violation of no_panic unless the path is infeasible
	if x.noPanic(fr) && x.noPanicKind("panic") {
		x.emit(st, fr, "F2", x.siteLabel(fr, in, "panic"), TFalse, in)
	}
	st.dead = true
}

// doReturn pops the frame; for the top frame it checks the postconditions. Returns false when the path ends.
func (x *Exec) doReturn(st *State, fr *Frame, res []Val) bool {
	if len(st.frames) == 1 {
		if x.inTwin {
			x.recordReturn(st, fr, res)
		}
		x.checkContinuesAfter(st, fr, fr.block.Instrs[fr.pc])
		x.checkPost(st, fr, res)
		st.dead = true
		return false
	}
	if x.inNewHelperChain(st, fr) && os.Getenv("GVC_NO_RENAME") == "" {
		// the locals of a helper that was extracted from the function under contract stay readable by
		// that function's clauses after the helper returned (lookupIdent: helperLocal)
		if st.meta == nil {
			st.meta = map[string]Val{}
		}
		for n, b := range fr.names {
			if v, ok := x.bindingVal(st, b); ok {
				st.meta["hl:"+CanonName(fr.fn)+":"+n] = v
			}
		}
		for i, p := range fr.fn.Params {
			if i < len(fr.params) {
				if _, ok := st.meta["hl:"+CanonName(fr.fn)+":"+p.Name()]; !ok {
					st.meta["hl:"+CanonName(fr.fn)+":"+p.Name()] = fr.params[i]
				}
			}
		}
	}
	st.frames = st.frames[:len(st.frames)-1]
	parent := st.top()
	x.Inlined[CanonName(fr.fn)]++
	var rv Val
	switch len(res) {
	case 0:
		rv = Val{T: Term{"unit", SUnit}}
	case 1:
		rv = res[0]
	default:
		rv = Val{T: Term{"unit", SUnit}, Tup: res, Typ: fr.fn.Signature.Results()}
	}
	switch ci := fr.callInstr.(type) {
	case *ssa.Call:
		parent.env[ci] = rv
		parent.pc++
	case *ssa.RunDefers:
		// stay on rundefers
	case *ssa.Defer, *ssa.Go:
		parent.pc++
	default:
		parent.pc++
	}
	return true
}

func (x *Exec) checkPost(st *State, fr *Frame, res []Val) {
	c := fr.contract
	if c == nil {
		return
	}
	sc := x.scopeFor(st, fr)
	x.bindResults(sc, fr.fn, res)
	if len(c.Of("ensures")) > 0 {
		x.emit(st, fr, "V", "reach.return", TFalse, fr.block.Instrs[fr.pc])
	}
	for i, cl := range c.Of("ensures") {
		t, err := x.evalBool(st, fr, cl.E, sc)
		if err != nil {
			x.unsupported("ensures %d of %s: %v", i, x.TopName, err)
			x.emit(st, fr, "F1", labelOr(cl, "ensures"), Term{"false", SBool}, fr.block.Instrs[fr.pc])
			continue
		}
		x.emit(st, fr, "F1", labelOr(cl, "ensures"), t, fr.block.Instrs[fr.pc])
	}
	if _, ok := c.Flags["atomic_on_error"]; ok {
		// err != nil ==> world unchanged (DESIGN F4)
		var errv *Val
		for i := len(res) - 1; i >= 0; i-- {
			if res[i].T.Sort == SIface {
				errv = &res[i]
				break
			}
		}
		if errv != nil {
			same := x.worldEq(st.worlds[0], fr.entryWorlds[0])
			x.emit(st, fr, "F4", "atomic_on_error", Implies(Not(Eq(errv.T, TINil)), same), fr.block.Instrs[fr.pc])
		}
	}
	if _, ok := c.Flags["world_unchanged"]; ok {
		same := x.worldEq(st.worlds[0], fr.entryWorlds[0])
		x.emit(st, fr, "F3", "world_unchanged", same, fr.block.Instrs[fr.pc])
	}
	x.checkFrame(st, fr, c)
}

// checkFrame (F5): a function whose contract declares a frame (`modifies …` or `reads_only`) is
// checked against it at every return: each heap array agrees with its entry value on every object
// that existed at entry (rid <= 0) other than the objects the frame names, and the world is the
// entry world unless the frame names W. Callers rely on exactly this when they apply the contract.
func (x *Exec) checkFrame(st *State, fr *Frame, c *Contract) {
	m, hasMod := c.Flags["modifies"]
	_, ro := c.Flags["reads_only"]
	if (!hasMod && !ro) || x.inTwin {
		return
	}
	if _, t := c.Flags["trusted"]; t {
		return
	}
	at := fr.block.Instrs[fr.pc]
	allowed := map[string][]Term{}
	worldMay := false
	param := func(name string) (Val, bool) {
		for i, p := range fr.fn.Params {
			if p.Name() == name && i < len(fr.params) {
				return fr.params[i], true
			}
		}
		return Val{}, false
	}
	for _, region := range strings.Fields(strings.ReplaceAll(m, ",", " ")) {
		switch {
		case region == "W" || strings.HasPrefix(region, "W."):
			worldMay = true
		case strings.HasPrefix(region, "*"):
			v, ok := param(region[1:])
			if !ok {
				// "*p.F": evaluated in the entry state
				if e, err := ParseExpr(region[1:]); err == nil {
					sc := x.scopeFor(st, fr)
					if ev, err := x.evalSpec(st, fr, EOld{X: e}, sc); err == nil && ev.T.Sort == SRef && ev.Typ != nil {
						v, ok = ev, true
					}
				}
			}
			if !ok {
				x.unsupported("modifies %s of %s: cannot resolve the region", region, x.TopName)
				continue
			}
			ptr, ok := v.Typ.Underlying().(*types.Pointer)
			if !ok {
				x.unsupported("modifies %s of %s: not a pointer", region, x.TopName)
				continue
			}
			if si := x.S.StructInfo(ptr.Elem()); si != nil {
				for i := range si.fields {
					n, _ := x.fieldArrName(si, i)
					allowed[n] = append(allowed[n], v.T)
				}
			} else {
				n, _ := cellArrName(x.S.SortOf(ptr.Elem()))
				allowed[n] = append(allowed[n], v.T)
			}
		case strings.HasPrefix(region, "elems(") && strings.HasSuffix(region, ")"):
			v, ok := param(region[6 : len(region)-1])
			if !ok || v.T.Sort != SSlice {
				x.unsupported("modifies %s of %s: no such slice parameter", region, x.TopName)
				continue
			}
			if sl, ok := v.Typ.Underlying().(*types.Slice); ok {
				n, _ := elemArrName(x.S.SortOf(sl.Elem()))
				allowed[n] = append(allowed[n], App(SRef, "s.base", v.T))
			}
		}
	}
	if _, total := st.heap["!epoch"]; total {
		x.emit(st, fr, "F5", "frame.heap", TFalse, at)
	}
	names := map[string]bool{}
	for n := range st.heap {
		if strings.HasPrefix(n, "!ep:") {
			names[n[4:]] = true
		} else if !strings.HasPrefix(n, "!") {
			names[n] = true
		}
	}
	x.D.DeclareFun("rid", []string{SRef}, SInt)
	for _, n := range sortedKeys(names) {
		sort := ""
		if t, ok := st.heap[n]; ok {
			sort = t.Sort
		} else if t, ok := fr.entryHeap[n]; ok {
			sort = t.Sort
		}
		if sort == "" {
			// havocked by a loop and never read again: its sort is unknown here, and so is its content
			x.emit(st, fr, "F5", "frame."+mangle(n), TFalse, at)
			continue
		}
		final := heapArrIn(x, st.heap, n, sort)
		entry := heapArrIn(x, fr.entryHeap, n, sort)
		if final.S == entry.S {
			continue
		}
		k, _ := splitArraySort(sort)
		if k != SRef {
			x.emit(st, fr, "F5", "frame."+mangle(n), Eq(final, entry), at)
			continue
		}
		conds := []string{"(<= (rid r) 0)"}
		for _, a := range allowed[n] {
			conds = append(conds, "(not (= r "+a.S+"))")
		}
		goal := Term{fmt.Sprintf("(forall ((r Ref)) (=> (and %s) (= (select %s r) (select %s r))))", strings.Join(conds, " "), final.S, entry.S), SBool}
		x.emit(st, fr, "F5", "frame."+mangle(n), goal, at)
	}
	if !worldMay {
		for i := range fr.entryWorlds {
			if i < len(st.worlds) {
				x.emit(st, fr, "F5", fmt.Sprintf("frame.world%d", i), x.worldEq(st.worlds[i], fr.entryWorlds[i]), at)
			}
		}
	}
}

func (x *Exec) worldEq(a, b WorldState) Term {
	ts := []Term{Eq(a.Ver, b.Ver)}
	keys := map[string]bool{}
	for k := range a.Ghost {
		keys[k] = true
	}
	for k := range b.Ghost {
		keys[k] = true
	}
	for _, k := range sortedKeys(keys) {
		av, aok := a.Ghost[k]
		bv, bok := b.Ghost[k]
		if aok && bok {
			ts = append(ts, Eq(av, bv))
		} else if aok != bok {
			// one side never touched the ghost: it is the version-determined default; compare via ver only
			continue
		}
	}
	return And(ts...)
}

func (x *Exec) bindResults(sc *scope, fn *ssa.Function, res []Val) {
	results := fn.Signature.Results()
	for i, r := range res {
		sc.vars[fmt.Sprintf("result%d", i)] = r
		if i < results.Len() && results.At(i).Name() != "" && results.At(i).Name() != "_" {
			sc.vars[results.At(i).Name()] = r
		}
		if r.T.Sort == SIface && i == len(res)-1 && isErrorType(results.At(i).Type()) {
			sc.vars["err"] = r
		}
	}
	// results that were named when the ledger was recorded keep answering to those names
	if rn := recordedResultNames(baseKey(fn)); len(rn) == len(res) {
		for i, n := range rn {
			if n == "" || n == "_" {
				continue
			}
			if _, ok := sc.vars[n]; !ok {
				sc.vars[n] = res[i]
			}
		}
	}
	if len(res) > 0 {
		if _, ok := sc.vars["result"]; !ok {
			sc.vars["result"] = res[0]
		}
	}
}

func isErrorType(t types.Type) bool { return typeKey(t) == "error" }

// callIsHeapNeutral: a call inside a loop body that provably (builtin, value-level native model) or
// by declaration (pure / reads_only contract, `pure` flag of the function under verification)
// neither writes the heap reachable from the caller nor a world. Such calls do not force the loop
// havoc to forget everything.
func (x *Exec) callIsHeapNeutral(cc *ssa.CallCommon) bool {
	if _, ok := cc.Value.(*ssa.Builtin); ok {
		return true
	}
	name := ""
	if cc.IsInvoke() {
		name = "(" + shortPkgType(cc.Value.Type()) + ")." + cc.Method.Name()
	} else if f := cc.StaticCallee(); f != nil {
		name = CanonName(f)
	} else {
		return false
	}
	if _, ok := x.purePattern(name); ok {
		return true
	}
	if c, ok := x.contractOf(name); ok {
		if _, p := c.Flags["pure"]; p {
			return true
		}
		if _, p := c.Flags["reads_only"]; p {
			return true
		}
		return false
	}
	if _, ok := natives[name]; ok {
		// native models are value-level (no heap or world writes) except the ones listed here
		return !strings.HasSuffix(name, ".CacheContext")
	}
	return false
}

// calleeFrameArrays: for a static callee under contract whose frame is given entirely by
// `modifies *param` / `modifies elems(param)` regions, the heap arrays those regions live in.
func (x *Exec) calleeFrameArrays(cc *ssa.CallCommon) ([]string, bool) {
	f := cc.StaticCallee()
	if f == nil || cc.IsInvoke() {
		return nil, false
	}
	c, ok := x.contractOf(CanonName(f))
	if !ok {
		return nil, false
	}
	m, ok := c.Flags["modifies"]
	if !ok {
		return nil, false
	}
	var out []string
	for _, region := range strings.Fields(strings.ReplaceAll(m, ",", " ")) {
		var pname string
		elems := false
		switch {
		case strings.HasPrefix(region, "*"):
			pname = region[1:]
		case strings.HasPrefix(region, "elems(") && strings.HasSuffix(region, ")"):
			pname, elems = region[6:len(region)-1], true
		default:
			return nil, false // world regions etc.: not a pure heap frame
		}
		var pt types.Type
		path := strings.Split(pname, ".")
		for _, p := range f.Params {
			if p.Name() == path[0] {
				pt = p.Type()
			}
		}
		for _, fld := range path[1:] { // "*p.F.G": walk the fields
			if pt == nil {
				break
			}
			t := pt
			if ptr, ok := t.Underlying().(*types.Pointer); ok {
				t = ptr.Elem()
			}
			st, ok := t.Underlying().(*types.Struct)
			pt = nil
			if ok {
				for i := 0; i < st.NumFields(); i++ {
					if st.Field(i).Name() == fld {
						pt = st.Field(i).Type()
					}
				}
			}
		}
		if pt == nil {
			return nil, false
		}
		if elems {
			sl, ok := pt.Underlying().(*types.Slice)
			if !ok {
				return nil, false
			}
			n, _ := elemArrName(x.S.SortOf(sl.Elem()))
			out = append(out, n)
			continue
		}
		ptr, ok := pt.Underlying().(*types.Pointer)
		if !ok {
			return nil, false
		}
		if si := x.S.StructInfo(ptr.Elem()); si != nil {
			for i := range si.fields {
				n, _ := x.fieldArrName(si, i)
				out = append(out, n)
			}
		} else {
			n, _ := cellArrName(x.S.SortOf(ptr.Elem()))
			out = append(out, n)
		}
	}
	return out, true
}

// rootAlloc follows FieldAddr/IndexAddr chains to the allocation an address is derived from.
func rootAlloc(v ssa.Value) *ssa.Alloc {
	for {
		switch a := v.(type) {
		case *ssa.Alloc:
			return a
		case *ssa.FieldAddr:
			v = a.X
		case *ssa.IndexAddr:
			v = a.X
		default:
			return nil
		}
	}
}

// nonEscapingAllocs: allocations whose address is only loaded from / stored to (directly or through
// field and index addresses). No callee, closure or other object can reach such a cell.
func (x *Exec) nonEscapingAllocs(fn *ssa.Function) []*ssa.Alloc {
	if x.nonEsc == nil {
		x.nonEsc = map[*ssa.Function][]*ssa.Alloc{}
	}
	if r, ok := x.nonEsc[fn]; ok {
		return r
	}
	var out []*ssa.Alloc
	var onlyLocalUse func(v ssa.Value, depth int) bool
	onlyLocalUse = func(v ssa.Value, depth int) bool {
		if depth > 6 || v.Referrers() == nil {
			return false
		}
		for _, r := range *v.Referrers() {
			switch r := r.(type) {
			case *ssa.DebugRef:
			case *ssa.UnOp:
				if r.Op != token.MUL {
					return false
				}
			case *ssa.Store:
				if r.Val == v {
					return false
				}
			case *ssa.FieldAddr:
				if !onlyLocalUse(r, depth+1) {
					return false
				}
			case *ssa.IndexAddr:
				if !onlyLocalUse(r, depth+1) {
					return false
				}
			default:
				return false
			}
		}
		return true
	}
	for _, b := range fn.Blocks {
		for _, in := range b.Instrs {
			if a, ok := in.(*ssa.Alloc); ok && onlyLocalUse(a, 0) {
				out = append(out, a)
			}
		}
	}
	x.nonEsc[fn] = out
	return out
}

func (x *Exec) iterClauses(st *State, fr *Frame, ld *loopDesc) []Clause {
	ref := x.loopRef(st, fr, ld)
	var out []Clause
	if c := x.loopContract(st, fr); c != nil {
		out = append(out, c.LoopClauses(ref, "back_edge_ensures")...)
	}
	if fr != st.frames[0] && x.TopC != nil && !x.inNewHelperChain(st, fr) {
		out = append(out, x.TopC.LoopClauses(fr.fn.Name()+"#"+ref, "back_edge_ensures")...)
	}
	return out
}

// loopWorlds: the worlds a loop body can write — those of the context / store values its calls are
// handed. A context-typed operand that is not bound before the loop (created inside it) makes the
// answer "all worlds".
func (x *Exec) loopWorlds(st *State, fr *Frame, ld *loopDesc) map[int]bool {
	out := map[int]bool{}
	all := func() map[int]bool {
		for i := range st.worlds {
			out[i] = true
		}
		return out
	}
	for bi := range ld.body {
		for _, in := range fr.fn.Blocks[bi].Instrs {
			var cc *ssa.CallCommon
			switch c := in.(type) {
			case *ssa.Call:
				cc = c.Common()
			case *ssa.Defer:
				cc = c.Common()
			case *ssa.Go:
				cc = c.Common()
			}
			if cc == nil {
				continue
			}
			ops := append([]ssa.Value{}, cc.Args...)
			if cc.IsInvoke() {
				ops = append(ops, cc.Value)
			}
			if mc, ok := cc.Value.(*ssa.MakeClosure); ok {
				ops = append(ops, mc.Bindings...)
			}
			for _, a := range ops {
				t := a.Type()
				if p, ok := t.Underlying().(*types.Pointer); ok {
					t = p.Elem() // captured variables are passed by address
				}
				if !isContextType(t) && !isStoreType(t) {
					continue
				}
				// look through interface conversions of a context
				src := a
				for {
					if mi, ok := src.(*ssa.MakeInterface); ok {
						src = mi.X
						continue
					}
					if ci, ok := src.(*ssa.ChangeInterface); ok {
						src = ci.X
						continue
					}
					break
				}
				v, ok := fr.env[src]
				if !ok || v.World == 0 {
					return all()
				}
				out[v.World-1] = true
			}
		}
	}
	return out
}

// sawRef records reference-valued terms obtained from loads and calls.
func (x *Exec) sawRef(st *State, v Val) {
	switch v.T.Sort {
	case SRef:
		if v.T.S != "null" {
			st.seenRefs = append(st.seenRefs, v.T)
		}
	case SSlice:
		st.seenRefs = append(st.seenRefs, App(SRef, "s.base", v.T))
	}
	for _, c := range v.Tup {
		x.sawRef(st, c)
	}
}

// localMaps: make(map) values only used by map operations of this function (never passed on, stored
// or captured).
func (x *Exec) localMaps(fn *ssa.Function) []*ssa.MakeMap {
	var out []*ssa.MakeMap
	for _, b := range fn.Blocks {
		for _, in := range b.Instrs {
			mm, ok := in.(*ssa.MakeMap)
			if !ok || mm.Referrers() == nil {
				continue
			}
			local := true
			for _, r := range *mm.Referrers() {
				switch r := r.(type) {
				case *ssa.MapUpdate:
					if r.Map != mm {
						local = false
					}
				case *ssa.Lookup, *ssa.Range, *ssa.DebugRef:
				case *ssa.Call:
					if _, isB := r.Call.Value.(*ssa.Builtin); !isB {
						local = false
					}
				default:
					local = false
				}
			}
			if local {
				out = append(out, mm)
			}
		}
	}
	return out
}

// abstractCallFrame: for a call that the executor will abstract (no body to inline, no contract, not a
// closure), the heap arrays callAbstract would havoc: the objects its pointer arguments point to.
func (x *Exec) abstractCallFrame(st *State, cc *ssa.CallCommon) ([]string, bool) {
	if !cc.IsInvoke() {
		f := cc.StaticCallee()
		if f == nil {
			return nil, false // dynamic call / closure value
		}
		name := CanonName(f)
		if _, isGetter := getterField(f); isGetter && os.Getenv("GVC_NO_GETTERS") == "" {
			return nil, true // a generated getter reads one field and writes nothing
		}
		if _, ok := x.contractOf(name); ok {
			return nil, false
		}
		if f.Parent() != nil || x.shouldInline(st, name, f) {
			return nil, false
		}
	}
	var out []string
	ops := append([]ssa.Value{}, cc.Args...)
	for _, a := range ops {
		if _, isClosure := a.(*ssa.MakeClosure); isClosure {
			return nil, false
		}
		if _, isFn := a.Type().Underlying().(*types.Signature); isFn {
			return nil, false // a function value handed to the callee may do anything
		}
		pt, ok := a.Type().Underlying().(*types.Pointer)
		if !ok {
			continue
		}
		if _, ov := sortOverride[typeKey(a.Type())]; ov {
			continue
		}
		if si := x.S.StructInfo(pt.Elem()); si != nil {
			for i := range si.fields {
				n, _ := x.fieldArrName(si, i)
				out = append(out, n)
			}
		} else {
			n, _ := cellArrName(x.S.SortOf(pt.Elem()))
			out = append(out, n)
		}
	}
	return out, true
}

// abstractCallWritesWorld mirrors callAbstract's classification of a callee without contract.
func (x *Exec) abstractCallWritesWorld(cc *ssa.CallCommon) bool {
	if cc.IsInvoke() {
		return !looksReadOnly(cc.Method.Name())
	}
	f := cc.StaticCallee()
	if f == nil {
		return true
	}
	if isEffectFreePkg(f) || isDropped(CanonName(f)) {
		return false
	}
	return x.writesWorld(f, 0)
}

// ---------- loops across extracted helpers ----------

// inNewHelperChain: fr is a frame below the function under contract reached only through helpers that
// did not exist when the ledger was recorded (code somebody moved out of that function).
func (x *Exec) inNewHelperChain(st *State, fr *Frame) bool {
	if x.Top == nil || len(st.frames) < 2 || st.frames[0].fn != x.Top || fr == st.frames[0] {
		return false
	}
	for i, f := range st.frames {
		if i == 0 {
			continue
		}
		if _, has := x.contractOf(CanonName(f.fn)); has || !isNewHelper(CanonName(f.fn), f.fn) {
			return false
		}
		if f == fr {
			return true
		}
	}
	return false
}

// loopContract: whose loop clauses apply to a loop met in frame fr -- the frame's own contract, or the
// contract of the function under contract when the loop sits in a helper extracted from it.
func (x *Exec) loopContract(st *State, fr *Frame) *Contract {
	if x.inNewHelperChain(st, fr) {
		return x.TopC
	}
	return fr.contract
}

type vloop struct {
	chain  []ssa.Instruction
	header *ssa.BasicBlock
}

// virtualLoops lists the loops of fn in source order with the loops of extracted helpers spliced in at
// the helper's call.
func (x *Exec) virtualLoops(fn *ssa.Function, chain []ssa.Instruction, depth int) []vloop {
	type item struct {
		pos token.Pos
		seq int
		lp  *loopDesc
		sub []vloop
	}
	var items []item
	for _, ld := range x.loopsOf(fn).order {
		items = append(items, item{pos: blockPos(ld.header), seq: ld.header.Index * 1000, lp: ld})
	}
	n := 0
	for _, b := range fn.Blocks {
		for _, in := range b.Instrs {
			n++
			c, ok := in.(*ssa.Call)
			if !ok || depth >= 3 {
				continue
			}
			if f := c.Common().StaticCallee(); f != nil {
				if _, has := x.contractOf(CanonName(f)); !has && isNewHelper(CanonName(f), f) {
					if sub := x.virtualLoops(f, append(append([]ssa.Instruction(nil), chain...), in), depth+1); len(sub) > 0 {
						items = append(items, item{pos: in.Pos(), seq: b.Index*1000 + n%1000, sub: sub})
					}
				}
			}
		}
	}
	sort.SliceStable(items, func(i, j int) bool {
		if items[i].pos != items[j].pos {
			return items[i].pos < items[j].pos
		}
		return items[i].seq < items[j].seq
	})
	var out []vloop
	for _, it := range items {
		if it.sub != nil {
			out = append(out, it.sub...)
		} else {
			out = append(out, vloop{chain: chain, header: it.lp.header})
		}
	}
	return out
}

// loopRef: the ordinal by which contracts refer to the loop -- its position among the loops of its own
// function, or, for the function under contract and helpers extracted from it, among the loops of that
// function as if the helpers' bodies were still in place.
func (x *Exec) loopRef(st *State, fr *Frame, ld *loopDesc) string {
	own := fmt.Sprintf("%d", ld.ordinal)
	if x.Top == nil || len(st.frames) == 0 || st.frames[0].fn != x.Top {
		return own
	}
	if fr != st.frames[0] && !x.inNewHelperChain(st, fr) {
		return own
	}
	var chain []ssa.Instruction
	for i, f := range st.frames {
		if i > 0 {
			chain = append(chain, f.callInstr)
		}
		if f == fr {
			break
		}
	}
	vl := x.virtualLoops(x.Top, nil, 0)
	if rec := recordedLoops(x.TopName); rec >= 0 && rec != len(vl) {
		// the helpers did not just take over loops the recorded function had (they brought new ones, or
		// loops were removed): nothing is renumbered; a loop inside a helper then has no clauses
		if fr != st.frames[0] {
			return "helper:" + fr.fn.Name() + "#" + own
		}
		return own
	}
	for i, v := range vl {
		if v.header != ld.header || len(v.chain) != len(chain) {
			continue
		}
		same := true
		for j := range chain {
			if v.chain[j] != chain[j] {
				same = false
			}
		}
		if same {
			return fmt.Sprintf("%d", i)
		}
	}
	return own
}
