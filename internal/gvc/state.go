package gvc

import (
	"fmt"
	"go/types"
	"strings"

	"golang.org/x/tools/go/ssa"
)

// Val is a symbolic value: an SMT term plus static (per-path) metadata.
type Val struct {
	T       Term
	Typ     types.Type
	LV      *LVal         // static lvalue when the value is a pointer produced by Alloc/FieldAddr/IndexAddr
	Clo     *Closure      // statically known closure
	Fn      *ssa.Function // statically known function value
	Tup     []Val         // tuple components
	Dyn     *Val          // interface: statically known payload
	World   int           // context/store values: world index+1 (0 = not a context)
	Pfx     string        // store values: key-space prefix term (sort Bytes) rendered
	Bound   *ssa.Function // bound-method closure target
	Commit  *[2]int       // CacheContext commit function: copy world [0] into world [1]
	OfSlice *Term         // a Bytes value that is the content of this slice (its length is the slice's)
}

type Closure struct {
	Fn       *ssa.Function
	Bindings []Val
}

type lstep struct {
	field int // >=0: struct field index
	idx   Term
	isIdx bool
	ct    types.Type // container type the step applies to
}

type LVal struct {
	Kind  string // obj | elems | global
	Root  Term
	RootT types.Type // obj: pointee type; elems: element type; global: variable type
	Path  []lstep
	Name  string // global name
}

func (l *LVal) extend(s lstep) *LVal {
	n := &LVal{Kind: l.Kind, Root: l.Root, RootT: l.RootT, Name: l.Name}
	n.Path = append(append([]lstep{}, l.Path...), s)
	return n
}

type WorldState struct {
	Ver   Term
	Ghost map[string]Term
}

func (w WorldState) clone() WorldState {
	g := make(map[string]Term, len(w.Ghost))
	for k, v := range w.Ghost {
		g[k] = v
	}
	return WorldState{Ver: w.Ver, Ghost: g}
}

type deferred struct {
	call *ssa.CallCommon
	fn   Val
	args []Val
	pos  ssa.Instruction
}

type nameBinding struct {
	v      Val
	isAddr bool
}

type Frame struct {
	fn            *ssa.Function
	env           map[ssa.Value]Val
	names         map[string]nameBinding
	block         *ssa.BasicBlock
	prev          *ssa.BasicBlock
	pc            int
	defers        []deferred
	freevars      []Val
	params        []Val
	callInstr     ssa.Instruction   // in the parent frame; nil for top
	loopEntry     map[int]*loopSnap // header block index -> snapshot at entry (for decreases)
	contract      *Contract
	runningDefers bool
	deferResume   *deferResume
	entryHeap     map[string]Term
	entryWorlds   []WorldState
	panicking     bool
	recovered     bool
	stamps        map[ssa.Value]int // execution order of value definitions (latest reaching definition of a name)
	nstamp        int
}

type deferResume struct {
	remaining []deferred
	after     func(st *State) // what to do once all defers have run
}

type loopSnap struct {
	decr   []Term
	heap   map[string]Term // heap at the loop head of the iteration being executed (spec: head(e))
	worlds []WorldState
	counts map[string]int // call counts at the loop head (spec: head(ncalls("f")))
	syms   map[string]Term
}

func (f *Frame) clone() *Frame {
	n := *f
	n.env = make(map[ssa.Value]Val, len(f.env))
	for k, v := range f.env {
		n.env[k] = v
	}
	n.names = make(map[string]nameBinding, len(f.names))
	for k, v := range f.names {
		n.names[k] = v
	}
	n.defers = append([]deferred{}, f.defers...)
	n.stamps = make(map[ssa.Value]int, len(f.stamps))
	for k, v := range f.stamps {
		n.stamps[k] = v
	}
	n.loopEntry = make(map[int]*loopSnap, len(f.loopEntry))
	for k, v := range f.loopEntry {
		n.loopEntry[k] = v
	}
	if f.deferResume != nil {
		dr := *f.deferResume
		dr.remaining = append([]deferred{}, dr.remaining...)
		n.deferResume = &dr
	}
	return &n
}

type State struct {
	facts      []Term
	heap       map[string]Term
	worlds     []WorldState
	frames     []*Frame
	trace      []string
	dead       bool
	nEvents    int
	callCounts map[string]int
	callSyms   map[string]Term // callee name -> symbolic number of calls made in loop iterations already cut away (ncalls = count + symbol)
	meta       map[string]Val
	retHeaps   map[string]map[string]Term // callee name -> heap when its most recent call returned (spec: after("pat", e))
	seenRefs   []Term                     // references observed so far on this path (a later allocation differs from all of them)
}

func (s *State) clone() *State {
	n := &State{}
	n.facts = s.facts[:len(s.facts):len(s.facts)]
	n.heap = make(map[string]Term, len(s.heap))
	for k, v := range s.heap {
		n.heap[k] = v
	}
	for _, w := range s.worlds {
		n.worlds = append(n.worlds, w.clone())
	}
	for _, f := range s.frames {
		n.frames = append(n.frames, f.clone())
	}
	n.trace = s.trace[:len(s.trace):len(s.trace)]
	n.seenRefs = s.seenRefs[:len(s.seenRefs):len(s.seenRefs)]
	n.callCounts = make(map[string]int, len(s.callCounts))
	for k, v := range s.callCounts {
		n.callCounts[k] = v
	}
	if s.callSyms != nil {
		n.callSyms = make(map[string]Term, len(s.callSyms))
		for k, v := range s.callSyms {
			n.callSyms[k] = v
		}
	}
	if s.retHeaps != nil {
		n.retHeaps = make(map[string]map[string]Term, len(s.retHeaps))
		for k, v := range s.retHeaps {
			n.retHeaps[k] = v // snapshots are never mutated
		}
	}
	if s.meta != nil {
		n.meta = make(map[string]Val, len(s.meta))
		for k, v := range s.meta {
			n.meta[k] = v
		}
	}
	return n
}

func (s *State) top() *Frame { return s.frames[len(s.frames)-1] }

func (s *State) assume(t Term) {
	if t.S == "true" {
		return
	}
	s.facts = append(s.facts, t)
}

func (s *State) note(f string, a ...any) { s.trace = append(s.trace, fmt.Sprintf(f, a...)) }

func copyHeap(h map[string]Term) map[string]Term {
	n := make(map[string]Term, len(h))
	for k, v := range h {
		n[k] = v
	}
	return n
}

func copyWorlds(ws []WorldState) []WorldState {
	var n []WorldState
	for _, w := range ws {
		n = append(n, w.clone())
	}
	return n
}

// Obligation is one proof goal on one path.
type Obligation struct {
	Name   string // stable name: <func>#<family>.<label>
	Family string
	Func   string
	Facts  []Term
	Goal   Term
	Trace  []string
	Pos    string
	Note   string
}

// ProblemQF is Problem without the quantified assumptions (the goal is kept as it is). Fewer
// assumptions: an `unsat` answer carries over to the full problem; a `sat` answer is only a
// candidate counterexample.
func (o *Obligation) ProblemQF(pre string, wantModel bool) (string, bool) {
	dropped := false
	var b strings.Builder
	b.WriteString("; obligation " + o.Name + " at " + o.Pos + " (quantified assumptions dropped)\n")
	b.WriteString("(set-option :produce-models true)\n(set-logic ALL)\n")
	for _, line := range strings.Split(pre, "\n") {
		if strings.HasPrefix(line, "(assert ") && (strings.Contains(line, "(forall ") || strings.Contains(line, "(exists ")) {
			dropped = true
			continue
		}
		b.WriteString(line)
		b.WriteByte('\n')
	}
	for _, f := range o.Facts {
		if strings.Contains(f.S, "(forall ") || strings.Contains(f.S, "(exists ") {
			dropped = true
			continue
		}
		b.WriteString("(assert " + f.S + ")\n")
	}
	b.WriteString("(assert (not " + o.Goal.S + "))\n(check-sat)\n")
	if wantModel {
		b.WriteString("(get-model)\n")
	}
	return b.String(), dropped
}

func (o *Obligation) Problem(pre string, wantModel bool) string {
	var b strings.Builder
	b.WriteString("; obligation " + o.Name + " at " + o.Pos + "\n")
	for _, t := range o.Trace {
		b.WriteString("; " + t + "\n")
	}
	b.WriteString("(set-option :produce-models true)\n(set-logic ALL)\n")
	b.WriteString(pre)
	for _, f := range o.Facts {
		b.WriteString("(assert " + f.S + ")\n")
	}
	b.WriteString("(assert (not " + o.Goal.S + "))\n(check-sat)\n")
	if wantModel {
		b.WriteString("(get-model)\n")
	}
	return b.String()
}
