package gvc

import (
	"encoding/json"
	"fmt"
	"os"
	"os/exec"
	"path/filepath"
	"sort"
	"strings"
	"sync"
)

// CmdSelftest applies each must-fail patch (selftest/<id>/*.patch, seeded/<id>*/patch.diff) to a
// scratch copy of the repo and demands a VIOLATION from the property's check. The scratch copy
// lives under /tmp and is removed afterwards.
func CmdSelftest(args []string) int {
	if len(args) < 1 {
		fmt.Println("usage: gvc selftest <Cxx>|all [patch...]")
		return 2
	}
	if args[0] == "benign" {
		return cmdBenign(args[1:])
	}
	ids := []string{args[0]}
	if args[0] == "all" {
		ids = nil
		ms, _ := filepath.Glob(filepath.Join(VerifDir, "props", "C*.json"))
		for _, m := range ms {
			ids = append(ids, strings.TrimSuffix(filepath.Base(m), ".json"))
		}
		sort.Strings(ids)
	}
	if selftestGoCache == "" {
		c, drop := scratchGoCache()
		selftestGoCache = c
		defer drop()
	}
	failed := 0
	type row struct{ ID, Patch, Result, Detail string }
	var rows []row
	for _, id := range ids {
		var patches []string
		if len(args) > 1 {
			patches = args[1:]
		} else {
			p1, _ := filepath.Glob(filepath.Join(VerifDir, "selftest", id, "*.patch"))
			p2, _ := filepath.Glob(filepath.Join(VerifDir, "seeded", id+"*", "patch.diff"))
			patches = append(p1, p2...)
		}
		sort.Strings(patches)
		// GVC_SELFTEST_J patched checks at a time (each is its own process reading /repo through an overlay)
		j := 1
		fmt.Sscan(os.Getenv("GVC_SELFTEST_J"), &j)
		if j < 1 {
			j = 1
		}
		out := make([]row, len(patches))
		sem := make(chan struct{}, j)
		var wg sync.WaitGroup
		for i, p := range patches {
			wg.Add(1)
			sem <- struct{}{}
			go func(i int, p string) {
				defer wg.Done()
				defer func() { <-sem }()
				res, detail := selftestOne(id, p)
				out[i] = row{id, strings.TrimPrefix(p, VerifDir+"/"), res, detail}
			}(i, p)
		}
		wg.Wait()
		for _, r := range out {
			rows = append(rows, r)
			fmt.Printf("%-5s %-60s %s %s\n", r.ID, r.Patch, r.Result, r.Detail)
			if r.Result != "DETECTED" {
				failed++
			}
		}
	}
	b, _ := json.MarshalIndent(rows, "", " ")
	os.WriteFile(filepath.Join(VerifDir, "out", "selftest-last.json"), b, 0o644)
	if failed > 0 {
		fmt.Printf("selftest: %d patch(es) NOT detected\n", failed)
		return 1
	}
	return 0
}

// selftestGoCache: disposable clone of the build cache used by the patched runs (see scratchGoCache).
var selftestGoCache string

func selftestOne(id, patch string) (string, string) {
	scratch, err := os.MkdirTemp("", "gvc-scratch")
	if err != nil {
		return "ERROR", err.Error()
	}
	defer os.RemoveAll(scratch)
	// the patched files are handed to the check as an overlay on /repo's working tree: nothing is
	// copied but the files the patch touches, and only their packages (and importers) are recompiled
	repo := filepath.Join(scratch, "repo")
	pb, err := os.ReadFile(patch)
	if err != nil {
		return "ERROR", err.Error()
	}
	var files []string
	seenFile := map[string]bool{}
	for _, l := range strings.Split(string(pb), "\n") {
		for _, pre := range []string{"+++ b/", "--- a/"} {
			if strings.HasPrefix(l, pre) {
				f := strings.TrimSpace(strings.SplitN(l[len(pre):], "\t", 2)[0])
				if f != "" && f != "/dev/null" && !seenFile[f] {
					seenFile[f] = true
					files = append(files, f)
				}
			}
		}
	}
	for _, f := range files {
		dst := filepath.Join(repo, f)
		os.MkdirAll(filepath.Dir(dst), 0o755)
		if b, err := os.ReadFile(filepath.Join(RepoDir, f)); err == nil {
			os.WriteFile(dst, b, 0o644)
		}
	}
	ap := exec.Command("patch", "-p1", "-s", "-i", patch)
	ap.Dir = repo
	if out, err := ap.CombinedOutput(); err != nil {
		return "ERROR", "patch does not apply: " + tail(string(out), 300)
	}
	overlay := map[string]string{}
	for _, f := range files {
		if _, err := os.Stat(filepath.Join(repo, f)); err == nil {
			overlay[filepath.Join(RepoDir, f)] = filepath.Join(repo, f)
			continue
		}
		// the patch deletes the file: an overlay cannot remove a file, an empty file of the same
		// package is the same thing to the compiler
		if orig, err := os.ReadFile(filepath.Join(RepoDir, f)); err == nil && strings.HasSuffix(f, ".go") {
			pkgLine := ""
			for _, l := range strings.Split(string(orig), "\n") {
				if strings.HasPrefix(l, "package ") {
					pkgLine = l
					break
				}
			}
			if pkgLine != "" {
				stub := filepath.Join(repo, f)
				os.MkdirAll(filepath.Dir(stub), 0o755)
				os.WriteFile(stub, []byte(pkgLine+"\n"), 0o644)
				overlay[filepath.Join(RepoDir, f)] = stub
			}
		}
	}
	ob, _ := json.Marshal(overlay)
	ovf := filepath.Join(scratch, "overlay.json")
	os.WriteFile(ovf, ob, 0o644)
	self, _ := os.Executable()
	cmd := exec.Command(self, "check", id, "--tier", "quick")
	cmd.Env = append(envList(), "GVC_OVERLAY="+ovf, "GVC_VERIF_OUT="+filepath.Join(scratch, "verifout"))
	if selftestGoCache != "" {
		cmd.Env = append(cmd.Env, "GOCACHE="+selftestGoCache)
	}
	out, _ := cmd.CombinedOutput()
	s := string(out)
	if strings.Contains(s, "VIOLATION property="+id) {
		// name the failing obligations
		var obls []string
		for _, l := range strings.Split(s, "\n") {
			if strings.HasPrefix(l, "VIOLATION") {
				f := strings.Fields(l)
				for _, w := range f {
					if strings.HasPrefix(w, "replay=") {
						obls = append(obls, strings.TrimSuffix(filepath.Base(w), ".json"))
					}
				}
				if strings.Contains(l, "no-failing-input-found") {
					obls[len(obls)-1] += "(no-input)"
				}
			}
		}
		return "DETECTED", strings.Join(obls, ",")
	}
	return "MISSED", tail(strings.TrimSpace(s), 200)
}

// cmdBenign: the other half of the self-test. Every change under /verif/benign/Cnn-k is a maintenance
// edit after which the property holds exactly as before (renamed locals, a few lines extracted into a
// helper, two independent statements swapped, log / error text, an equivalent expression). The check of
// that property must stay quiet on each: an alarm here is a false alarm.
func cmdBenign(args []string) int {
	pats, _ := filepath.Glob(filepath.Join(VerifDir, "benign", "C*", "patch.diff"))
	sort.Strings(pats)
	if selftestGoCache == "" {
		c, drop := scratchGoCache()
		selftestGoCache = c
		defer drop()
	}
	j := 1
	fmt.Sscan(os.Getenv("GVC_SELFTEST_J"), &j)
	if j < 1 {
		j = 1
	}
	type row struct{ ID, Patch, Result, Detail string }
	out := make([]row, len(pats))
	sem := make(chan struct{}, j)
	var wg sync.WaitGroup
	for i, p := range pats {
		id := strings.SplitN(filepath.Base(filepath.Dir(p)), "-", 2)[0]
		if len(args) > 0 && args[0] != id {
			continue
		}
		wg.Add(1)
		sem <- struct{}{}
		go func(i int, id, p string) {
			defer wg.Done()
			defer func() { <-sem }()
			res, detail := selftestOne(id, p)
			switch res {
			case "MISSED":
				res = "QUIET"
			case "DETECTED":
				res = "ALARM"
			}
			out[i] = row{id, strings.TrimPrefix(p, VerifDir+"/"), res, detail}
		}(i, id, p)
	}
	wg.Wait()
	alarms := 0
	for _, r := range out {
		if r.ID == "" {
			continue
		}
		d := r.Detail
		if r.Result == "QUIET" {
			d = ""
		}
		fmt.Printf("%-5s %-40s %s %s\n", r.ID, r.Patch, r.Result, d)
		if r.Result != "QUIET" {
			alarms++
		}
	}
	b, _ := json.MarshalIndent(out, "", " ")
	os.WriteFile(filepath.Join(VerifDir, "out", "benign-last.json"), b, 0o644)
	if alarms > 0 {
		fmt.Printf("benign: %d change(s) raised an alarm\n", alarms)
		return 1
	}
	return 0
}
