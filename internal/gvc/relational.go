package gvc

// F7 relational obligations by twin execution (DESIGN 2.7 F7a).
//
// `injective_except f1, f2, ...` (or `injective_in f1, ...`) on a method with a struct(-pointer)
// receiver demands: for two receivers m1, m2, equal results imply equal values of every field of the
// receiver type except the listed ones (resp. of every listed field). The function is explored twice
// on disjoint symbolic inputs; for every pair of return paths one obligation per field is emitted:
//
//	facts1 ∧ facts2 ∧ err1 = nil ∧ err2 = nil ∧ result1 = result2  ⇒  m1.f = m2.f
//
// Library functions on the way (Sprintf with a fixed format, hashes, Int.String, ABI packing) are
// uninterpreted and assumed injective through explicit inverse functions — each such assumption is
// counted in the trusted base.

import (
	"fmt"
	"go/types"
	"strings"

	"golang.org/x/tools/go/ssa"
)

type retState struct {
	facts  []Term
	heap   map[string]Term
	entry  map[string]Term
	res    []Val
	params []Val
	trace  []string
	at     ssa.Instruction
}

func (x *Exec) relationalWanted() bool {
	if x.TopC == nil {
		return false
	}
	_, a := x.TopC.Flags["injective_except"]
	_, b := x.TopC.Flags["injective_in"]
	return a || b
}

// recordReturn is called for every top-level return when a relational clause is present.
func (x *Exec) recordReturn(st *State, fr *Frame, res []Val) {
	var at ssa.Instruction
	if fr.pc < len(fr.block.Instrs) {
		at = fr.block.Instrs[fr.pc]
	}
	x.rets = append(x.rets, retState{facts: st.facts[:len(st.facts):len(st.facts)], heap: copyHeap(st.heap), entry: fr.entryHeap, res: res, params: fr.params, trace: st.trace[:len(st.trace):len(st.trace)], at: at})
}

// emitRelational pairs the return states of the two runs.
func (x *Exec) emitRelational(fn *ssa.Function, run1, run2 []retState) {
	c := x.TopC
	recv := fn.Signature.Recv()
	if recv == nil || len(fn.Params) == 0 {
		x.unsupported("injective clause on a function without receiver")
		return
	}
	rt := recv.Type()
	isPtr := false
	if p, ok := rt.Underlying().(*types.Pointer); ok {
		rt, isPtr = p.Elem(), true
	}
	si := x.S.StructInfo(rt)
	if si == nil {
		x.unsupported("injective clause: receiver %s is not a struct", rt)
		return
	}
	except := map[string]bool{}
	for _, f := range flagList(c, "injective_except") {
		except[f] = true
	}
	only := map[string]bool{}
	for _, f := range flagList(c, "injective_in") {
		only[f] = true
	}
	for name := range except {
		if fieldIndex(si.typ, name) < 0 {
			x.unsupported("injective_except: no field %s in %s", name, rt)
		}
	}
	for name := range only {
		if fieldIndex(si.typ, name) < 0 {
			x.unsupported("injective_in: no field %s in %s", name, rt)
		}
	}
	fieldOf := func(r retState, i int) (Term, types.Type, bool) {
		p := r.params[0]
		if isPtr {
			l := x.lvalOf(p).extend(lstep{field: i, ct: rt})
			t, ct, err := x.loadLV(r.entry, l)
			return t, ct, err == nil
		}
		return App(si.fields[i], x.S.fieldSel(si.sort, si.typ, i), p.T), si.typ.Field(i).Type(), true
	}
	for i := 0; i < si.typ.NumFields(); i++ {
		fname := si.typ.Field(i).Name()
		if strings.HasPrefix(fname, "XXX_") {
			continue
		}
		if len(only) > 0 && !only[fname] {
			continue
		}
		if except[fname] {
			continue
		}
		for a, r1 := range run1 {
			for b, r2 := range run2 {
				resEq, ok := x.resultsEqual(r1, r2)
				if !ok {
					x.unsupported("injective clause: cannot compare results of %s", x.TopName)
					return
				}
				f1, ft, ok1 := fieldOf(r1, i)
				f2, _, ok2 := fieldOf(r2, i)
				if !ok1 || !ok2 {
					x.unsupported("injective clause: cannot read field %s", fname)
					continue
				}
				feq := x.valueEqual(r1.entry, r2.entry, f1, f2, ft)
				facts := append(append([]Term{}, r1.facts...), r2.facts...)
				o := &Obligation{
					Name: x.TopName + "#F7.injective." + fname, Family: "F7", Func: x.TopName,
					Facts: facts, Goal: Implies(resEq, feq),
					Trace: append(append([]string{fmt.Sprintf("pair of return paths %d/%d", a, b)}, r1.trace...), r2.trace...),
					Pos:   x.posOf(r1.at),
				}
				x.Obls = append(x.Obls, o)
			}
		}
	}
}

// resultsEqual: both calls succeeded (trailing error nil) and returned equal values.
func (x *Exec) resultsEqual(r1, r2 retState) (Term, bool) {
	if len(r1.res) != len(r2.res) || len(r1.res) == 0 {
		return Term{}, false
	}
	var ts []Term
	for i := range r1.res {
		a, b := r1.res[i], r2.res[i]
		if a.T.Sort == SIface && i == len(r1.res)-1 {
			ts = append(ts, Eq(a.T, TINil), Eq(b.T, TINil))
			continue
		}
		ts = append(ts, x.valueEqual(r1.heap, r2.heap, a.T, b.T, a.Typ))
	}
	return And(ts...), true
}

// valueEqual compares two values of the same Go type living in two heaps: byte slices by content,
// big integers by value, everything else by term equality.
func (x *Exec) valueEqual(h1, h2 map[string]Term, a, b Term, t types.Type) Term {
	switch a.Sort {
	case SSlice:
		if t != nil {
			if sl, ok := t.Underlying().(*types.Slice); ok {
				if bt, ok := sl.Elem().Underlying().(*types.Basic); ok && (bt.Kind() == types.Uint8 || bt.Kind() == types.Byte) {
					return Eq(x.bytesOfIn(h1, a), x.bytesOfIn(h2, b))
				}
				// other slices: same length and pointwise equal elements
				sort := x.S.SortOf(sl.Elem())
				n, s := elemArrName(sort)
				r1 := Select(heapArrIn(x, h1, n, s), App(SRef, "s.base", a))
				r2 := Select(heapArrIn(x, h2, n, s), App(SRef, "s.base", b))
				x.nquant++
				q := fmt.Sprintf("k_q%d", x.nquant)
				idx1 := App(SInt, "+", App(SInt, "s.off", a), Term{q, SInt})
				idx2 := App(SInt, "+", App(SInt, "s.off", b), Term{q, SInt})
				el := x.valueEqual(h1, h2, Select(r1, idx1), Select(r2, idx2), sl.Elem())
				all := Term{fmt.Sprintf("(forall ((%s Int)) (=> (and (<= 0 %s) (< %s %s)) %s))", q, q, q, App(SInt, "s.len", a).S, el.S), SBool}
				return And(Eq(App(SInt, "s.len", a), App(SInt, "s.len", b)), all)
			}
		}
		return Eq(x.bytesOfIn(h1, a), x.bytesOfIn(h2, b))
	case SMInt:
		return And(Eq(App(SBool, "mint.nil", a), App(SBool, "mint.nil", b)), Eq(App(SInt, "mint.v", a), App(SInt, "mint.v", b)))
	}
	return Eq(a, b)
}
