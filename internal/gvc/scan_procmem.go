package gvc

// process_memory_writers (C08): a frame condition on block execution as a census. "Process memory"
// is memory that outlives one call into the application and is not part of the replicated state:
// package-level variables of the state-machine packages, and every object of a long-lived type --
// the keeper structs, the types of package-level variables, and the module's own struct types
// reachable from those through fields, pointers, slices, maps and arrays. A state-machine function
// that writes such memory (a store through a field or element address, a map update or delete, a
// sync.Map / sync/atomic mutation) can make the result of a later block depend on what this process
// happened to execute before (queries, simulations, blocks before a restart). The scan computes, for
// every write instruction, where the written cell comes from -- a fresh allocation of this call, a
// package-level variable, or a parameter / call result / loaded reference of a long-lived type -- and
// demands that every function writing process memory is in List (reviewed: wiring at process start,
// or covered by its own contract). Package initialisers are exempt (they run once, before any block).

import (
	"fmt"
	"go/types"
	"sort"
	"strings"

	"golang.org/x/tools/go/ssa"
)

func init() { scanKinds["process_memory_writers"] = scanProcessMemoryWriters }

const (
	provFresh  = 1 << iota // allocated by this call
	provGlobal             // a package-level variable of a state-machine package (or reached from one)
	provLong               // an object of a long-lived type handed in, returned by a call, or loaded
	provOther              // caller memory of other types (messages being built, results, ...)
)

type procMem struct {
	P     *Program
	long  map[*types.Named]bool
	scope []string
}

func (pm *procMem) inScopePkg(p *types.Package) bool {
	if p == nil {
		return false
	}
	rel := strings.TrimPrefix(p.Path(), ModPath+"/")
	if rel == p.Path() {
		return false
	}
	for _, s := range pm.scope {
		if strings.HasPrefix(rel+"/", s) || strings.HasPrefix(rel, s) {
			return true
		}
	}
	return false
}

// namedOf strips pointers, slices, arrays and map values down to named types.
func namedOf(t types.Type, out *[]*types.Named, depth int) {
	if depth > 6 || t == nil {
		return
	}
	switch u := types.Unalias(t).(type) {
	case *types.Named:
		*out = append(*out, u)
	case *types.Pointer:
		namedOf(u.Elem(), out, depth+1)
	case *types.Slice:
		namedOf(u.Elem(), out, depth+1)
	case *types.Array:
		namedOf(u.Elem(), out, depth+1)
	case *types.Map:
		namedOf(u.Elem(), out, depth+1)
		namedOf(u.Key(), out, depth+1)
	}
}

func (pm *procMem) addLong(n *types.Named) {
	if n == nil || n.Obj() == nil {
		return
	}
	n = n.Origin()
	if pm.long[n] || !pm.inScopePkg(n.Obj().Pkg()) {
		return
	}
	st, ok := n.Underlying().(*types.Struct)
	if !ok {
		return
	}
	// generated protobuf messages are values of the replicated state, not process memory
	if pm.P.Fset != nil {
		if f := pm.P.Fset.Position(n.Obj().Pos()).Filename; strings.HasSuffix(f, ".pb.go") {
			return
		}
	}
	pm.long[n] = true
	for i := 0; i < st.NumFields(); i++ {
		var ns []*types.Named
		namedOf(st.Field(i).Type(), &ns, 0)
		for _, m := range ns {
			pm.addLong(m)
		}
	}
}

func (pm *procMem) typeTag(t types.Type) int {
	var ns []*types.Named
	namedOf(t, &ns, 0)
	for _, n := range ns {
		if pm.long[n.Origin()] {
			return provLong
		}
	}
	return provOther
}

// prov computes where the memory a reference value points into comes from.
func (pm *procMem) prov(v ssa.Value, seen map[ssa.Value]bool) int {
	if v == nil || seen[v] {
		return 0
	}
	seen[v] = true
	switch x := v.(type) {
	case *ssa.Global:
		if pm.inScopePkg(x.Pkg.Pkg) {
			return provGlobal
		}
		return provOther
	case *ssa.Alloc:
		return provFresh
	case *ssa.MakeMap, *ssa.MakeSlice, *ssa.MakeChan, *ssa.MakeClosure:
		return provFresh
	case *ssa.Parameter:
		return pm.typeTag(x.Type())
	case *ssa.FreeVar:
		// the address of a variable of the enclosing function; what it holds is judged by type
		if p, ok := x.Type().Underlying().(*types.Pointer); ok {
			return provFresh | (pm.typeTag(p.Elem()) & provLong)
		}
		return pm.typeTag(x.Type())
	case *ssa.FieldAddr:
		return pm.prov(x.X, seen)
	case *ssa.IndexAddr:
		return pm.prov(x.X, seen)
	case *ssa.Field:
		return pm.prov(x.X, seen)
	case *ssa.Index:
		return pm.prov(x.X, seen)
	case *ssa.Slice:
		return pm.prov(x.X, seen)
	case *ssa.Lookup:
		return pm.prov(x.X, seen)
	case *ssa.ChangeType:
		return pm.prov(x.X, seen)
	case *ssa.Convert:
		return pm.prov(x.X, seen)
	case *ssa.ChangeInterface:
		return pm.prov(x.X, seen)
	case *ssa.MakeInterface:
		return pm.prov(x.X, seen)
	case *ssa.TypeAssert:
		return pm.prov(x.X, seen) | (pm.typeTag(x.Type()) & provLong)
	case *ssa.Extract:
		return pm.typeTag(x.Type())
	case *ssa.Phi:
		r := 0
		for _, e := range x.Edges {
			r |= pm.prov(e, seen)
		}
		return r
	case *ssa.UnOp:
		// a load: the reference stored in a cell. A cell of process memory holds references into
		// process memory; a fresh cell holds whatever this call stored there.
		p := pm.prov(x.X, seen)
		if p&(provGlobal|provLong) != 0 {
			return p &^ provFresh
		}
		r := 0
		if root := allocRoot(x.X); root != nil {
			for _, in := range allocStores(root) {
				r |= pm.prov(in.Val, seen)
			}
		}
		if r == 0 {
			r = pm.typeTag(x.Type())
			if r == provOther {
				r = p
			}
		}
		return r
	case *ssa.Call:
		return pm.typeTag(x.Type())
	case *ssa.Const:
		return provOther
	}
	return pm.typeTag(v.Type())
}

func allocRoot(v ssa.Value) *ssa.Alloc {
	for i := 0; i < 32 && v != nil; i++ {
		switch x := v.(type) {
		case *ssa.Alloc:
			return x
		case *ssa.FieldAddr:
			v = x.X
		case *ssa.IndexAddr:
			v = x.X
		default:
			return nil
		}
	}
	return nil
}

// allocStores lists the stores into the cell (or a sub-cell) of a local allocation.
func allocStores(a *ssa.Alloc) []*ssa.Store {
	var out []*ssa.Store
	var walk func(v ssa.Value, depth int)
	walk = func(v ssa.Value, depth int) {
		if depth > 4 || v.Referrers() == nil {
			return
		}
		for _, r := range *v.Referrers() {
			switch x := r.(type) {
			case *ssa.Store:
				if x.Addr == v {
					out = append(out, x)
				}
			case *ssa.FieldAddr:
				walk(x, depth+1)
			case *ssa.IndexAddr:
				walk(x, depth+1)
			}
		}
	}
	walk(a, 0)
	return out
}

var mutatingSyncMethods = map[string]bool{
	"sync.(*Map).Store": true, "sync.(*Map).LoadOrStore": true, "sync.(*Map).LoadAndDelete": true, "sync.(*Map).Delete": true,
	"sync.(*Map).Swap": true, "sync.(*Map).CompareAndSwap": true, "sync.(*Map).CompareAndDelete": true, "sync.(*Map).Clear": true,
	"sync.(*Once).Do": true, "sync.(*Pool).Put": true,
}

func scanProcessMemoryWriters(P *Program, sp ScanSpec) []*OblResult {
	pm := &procMem{P: P, long: map[*types.Named]bool{}}
	for _, s := range strings.Split(sp.Args["scope"], ",") {
		if s = strings.TrimSpace(s); s != "" {
			pm.scope = append(pm.scope, s)
		}
	}
	// long-lived types: keepers and the types of package-level variables, closed under reachability
	roots := 0
	for _, pkg := range P.SSA.AllPackages() {
		if !pm.inScopePkg(pkg.Pkg) {
			continue
		}
		for _, m := range pkg.Members {
			switch x := m.(type) {
			case *ssa.Type:
				if n, ok := x.Type().(*types.Named); ok && (x.Name() == "Keeper" || x.Name() == "msgServer" || x.Name() == "queryServer") {
					pm.addLong(n)
					roots++
				}
			case *ssa.Global:
				if p, ok := x.Type().(*types.Pointer); ok {
					var ns []*types.Named
					namedOf(p.Elem(), &ns, 0)
					for _, n := range ns {
						pm.addLong(n)
					}
				}
			}
		}
	}
	for _, r := range strings.Split(sp.Args["roots"], ",") {
		r = strings.TrimSpace(r)
		i := strings.LastIndex(r, ".")
		if i < 0 {
			continue
		}
		pkg := P.ssaPkg(r[:i])
		if pkg == nil {
			return []*OblResult{scanResult(sp.Name, "F8", false, "root type's package not loaded: "+r)}
		}
		t, ok := pkg.Members[r[i+1:]].(*ssa.Type)
		if !ok {
			return []*OblResult{scanResult(sp.Name, "F8", false, "no such root type: "+r)}
		}
		if n, ok := t.Type().(*types.Named); ok {
			pm.addLong(n)
		}
	}
	if roots == 0 {
		return []*OblResult{scanResult(sp.Name, "F8", false, "no keeper type found in scope "+sp.Args["scope"])}
	}
	found := map[string][]string{}
	note := func(fn *ssa.Function, what string) {
		n := CanonName(fn)
		for _, w := range found[n] {
			if w == what {
				return
			}
		}
		found[n] = append(found[n], what)
	}
	describe := func(p int) string {
		switch {
		case p&provGlobal != 0:
			return "a package-level variable"
		default:
			return "an object of a long-lived type"
		}
	}
	for _, fn := range stateMachineFuncs(P, sp) {
		if fn.Name() == "init" || strings.HasPrefix(fn.Name(), "init#") {
			continue
		}
		if fn.Parent() != nil && (fn.Parent().Name() == "init" || strings.HasPrefix(fn.Parent().Name(), "init#")) {
			continue
		}
		for _, b := range fn.Blocks {
			for _, in := range b.Instrs {
				switch x := in.(type) {
				case *ssa.Store:
					if p := pm.prov(x.Addr, map[ssa.Value]bool{}); p&(provGlobal|provLong) != 0 {
						note(fn, "stores into "+describe(p))
					}
				case *ssa.MapUpdate:
					if p := pm.prov(x.Map, map[ssa.Value]bool{}); p&(provGlobal|provLong) != 0 {
						note(fn, "updates a map in "+describe(p))
					}
				case *ssa.Call:
					cc := x.Common()
					if bi, ok := cc.Value.(*ssa.Builtin); ok && (bi.Name() == "delete" || bi.Name() == "clear") && len(cc.Args) > 0 {
						if p := pm.prov(cc.Args[0], map[ssa.Value]bool{}); p&(provGlobal|provLong) != 0 {
							note(fn, bi.Name()+"s from a map in "+describe(p))
						}
						continue
					}
					f := cc.StaticCallee()
					if f == nil || f.Pkg == nil || len(cc.Args) == 0 {
						continue
					}
					full := f.Pkg.Pkg.Path() + "." + f.Name()
					if recv := f.Signature.Recv(); recv != nil {
						full = f.Pkg.Pkg.Path() + ".(" + recvTypeName(recv.Type()) + ")." + f.Name()
					}
					atomicMut := f.Pkg.Pkg.Path() == "sync/atomic" && !strings.HasPrefix(f.Name(), "Load")
					if mutatingSyncMethods[full] || atomicMut {
						if p := pm.prov(cc.Args[0], map[ssa.Value]bool{}); p&(provGlobal|provLong) != 0 {
							note(fn, "calls "+full+" on "+describe(p))
						}
					}
				}
			}
		}
	}
	want := map[string]bool{}
	for _, w := range sp.List {
		// "function: reason"
		name := w
		if i := strings.Index(w, ": "); i > 0 {
			name = w[:i]
		}
		want[name] = true
	}
	var extra, missing []string
	for f, what := range found {
		if !want[f] {
			sort.Strings(what)
			extra = append(extra, f+" "+strings.Join(what, ", "))
		}
	}
	for w := range want {
		if _, ok := found[w]; !ok {
			missing = append(missing, w)
		}
	}
	sort.Strings(extra)
	sort.Strings(missing)
	var long []string
	for n := range pm.long {
		long = append(long, strings.TrimPrefix(n.Obj().Pkg().Path(), ModPath+"/")+"."+n.Obj().Name())
	}
	sort.Strings(long)
	if len(extra) > 0 {
		return []*OblResult{scanResult(sp.Name, "F8", false, "process memory is also written by: "+strings.Join(extra, "; "))}
	}
	if len(missing) > 0 {
		return []*OblResult{scanResult(sp.Name, "F8", false, fmt.Sprintf("listed writers that no longer write process memory: %v", missing))}
	}
	return []*OblResult{scanResult(sp.Name, "F8", true, fmt.Sprintf("%d long-lived types (%s); %d reviewed writers", len(long), strings.Join(long, ", "), len(want)))}
}
