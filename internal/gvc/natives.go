package gvc

// Native models of library functions (trusted base, DESIGN Appendix B). Every use is
// counted in Exec.Trusted and reported in the evidence.

import (
	"fmt"
	"go/types"
	"math/big"
	"strconv"
	"strings"

	"golang.org/x/tools/go/ssa"
)

type bigInt = big.Int

var bigOne = big.NewInt(1)

type nativeFn func(x *Exec, st *State, fr *Frame, at ssa.Instruction, args []Val) (Val, bool)

var natives = map[string]nativeFn{}

const pkgMath = "cosmossdk.io/math."
const pkgSDK = "github.com/cosmos/cosmos-sdk/types."

func mkMInt(v Term) Term  { return App(SMInt, "mk-mint", TFalse, v) }
func mintV(t Term) Term   { return App(SInt, "mint.v", t) }
func mintNil(t Term) Term { return App(SBool, "mint.nil", t) }

func typNamed(x *Exec, path, name string) types.Type {
	for _, p := range x.P.SSA.AllPackages() {
		if p.Pkg.Path() == path {
			if o := p.Pkg.Scope().Lookup(name); o != nil {
				return o.Type()
			}
		}
	}
	return nil
}

func (x *Exec) mintType() types.Type { return typNamed(x, "cosmossdk.io/math", "Int") }

func init() {
	intBin := func(op string) nativeFn {
		return func(x *Exec, st *State, fr *Frame, at ssa.Instruction, a []Val) (Val, bool) {
			x.safety(st, fr, at, "mintnil", And(Not(mintNil(a[0].T)), Not(mintNil(a[1].T))))
			return Val{T: x.define(st, "mi", mkMInt(App(SInt, op, mintV(a[0].T), mintV(a[1].T)))), Typ: a[0].Typ}, true
		}
	}
	intBinRaw := func(op string) nativeFn {
		return func(x *Exec, st *State, fr *Frame, at ssa.Instruction, a []Val) (Val, bool) {
			x.safety(st, fr, at, "mintnil", Not(mintNil(a[0].T)))
			return Val{T: x.define(st, "mi", mkMInt(App(SInt, op, mintV(a[0].T), a[1].T))), Typ: a[0].Typ}, true
		}
	}
	intCmp := func(op string) nativeFn {
		return func(x *Exec, st *State, fr *Frame, at ssa.Instruction, a []Val) (Val, bool) {
			x.safety(st, fr, at, "mintnil", And(Not(mintNil(a[0].T)), Not(mintNil(a[1].T))))
			return Val{T: App(SBool, op, mintV(a[0].T), mintV(a[1].T)), Typ: types.Typ[types.Bool]}, true
		}
	}
	for _, T := range []string{"Int", "LegacyDec"} {
		p := pkgMath + "(" + T + ")."
		natives[p+"Add"] = intBin("+")
		natives[p+"Sub"] = intBin("-")
		natives[p+"GT"] = intCmp(">")
		natives[p+"GTE"] = intCmp(">=")
		natives[p+"LT"] = intCmp("<")
		natives[p+"LTE"] = intCmp("<=")
		natives[p+"Equal"] = intCmp("=")
		natives[p+"IsNil"] = func(x *Exec, st *State, fr *Frame, at ssa.Instruction, a []Val) (Val, bool) {
			return Val{T: mintNil(a[0].T), Typ: types.Typ[types.Bool]}, true
		}
		natives[p+"IsZero"] = func(x *Exec, st *State, fr *Frame, at ssa.Instruction, a []Val) (Val, bool) {
			x.safety(st, fr, at, "mintnil", Not(mintNil(a[0].T)))
			return Val{T: Eq(mintV(a[0].T), IntLit(0)), Typ: types.Typ[types.Bool]}, true
		}
		natives[p+"IsNegative"] = func(x *Exec, st *State, fr *Frame, at ssa.Instruction, a []Val) (Val, bool) {
			x.safety(st, fr, at, "mintnil", Not(mintNil(a[0].T)))
			return Val{T: App(SBool, "<", mintV(a[0].T), IntLit(0)), Typ: types.Typ[types.Bool]}, true
		}
		natives[p+"IsPositive"] = func(x *Exec, st *State, fr *Frame, at ssa.Instruction, a []Val) (Val, bool) {
			x.safety(st, fr, at, "mintnil", Not(mintNil(a[0].T)))
			return Val{T: App(SBool, ">", mintV(a[0].T), IntLit(0)), Typ: types.Typ[types.Bool]}, true
		}
		natives[p+"String"] = func(x *Exec, st *State, fr *Frame, at ssa.Instruction, a []Val) (Val, bool) {
			// decimal rendering: injective on the value (nil renders like... a distinct string)
			x.D.DeclareFun("mint.str", []string{SMInt}, SStr)
			r := x.define(st, "mstr", App(SStr, "mint.str", a[0].T))
			x.injective1(st, "mint.str", SMInt, SStr, a[0].T, r)
			return Val{T: r, Typ: types.Typ[types.String]}, true
		}
	}
	// LegacyDec: the value is the raw integer scaled by 10^18 (Add/Sub/comparisons act on it directly)
	const decP = "1000000000000000000"
	pd := pkgMath + "(LegacyDec)."
	decType := func(x *Exec) types.Type { return typNamed(x, "cosmossdk.io/math", "LegacyDec") }
	natives[pd+"MulInt"] = func(x *Exec, st *State, fr *Frame, at ssa.Instruction, a []Val) (Val, bool) {
		// exact product of the raw value and the integer; panics beyond 315 bits
		x.safety(st, fr, at, "mintnil", And(Not(mintNil(a[0].T)), Not(mintNil(a[1].T))))
		prod := x.define(st, "decmul", App(SInt, "*", mintV(a[0].T), mintV(a[1].T)))
		lim := IntLitStr("66749594872528440074844428317798503581334516323645399060845050244444366430645017188217565216768")
		x.safety(st, fr, at, "dec.overflow", And(App(SBool, "<", prod, lim), App(SBool, "<", App(SInt, "-", lim), prod)))
		return Val{T: x.define(st, "mi", mkMInt(prod)), Typ: a[0].Typ}, true
	}
	natives[pd+"Ceil"] = func(x *Exec, st *State, fr *Frame, at ssa.Instruction, a []Val) (Val, bool) {
		x.safety(st, fr, at, "mintnil", Not(mintNil(a[0].T)))
		c := App(SInt, "-", App(SInt, "div", App(SInt, "-", mintV(a[0].T)), IntLitStr(decP)))
		return Val{T: x.define(st, "mi", mkMInt(App(SInt, "*", c, IntLitStr(decP)))), Typ: a[0].Typ}, true
	}
	natives[pd+"TruncateInt"] = func(x *Exec, st *State, fr *Frame, at ssa.Instruction, a []Val) (Val, bool) {
		x.safety(st, fr, at, "mintnil", Not(mintNil(a[0].T)))
		return Val{T: x.define(st, "mi", mkMInt(x.truncDiv(mintV(a[0].T), IntLitStr(decP), false, nil))), Typ: x.mintType()}, true
	}
	natives[pkgMath+"LegacyNewDecFromInt"] = func(x *Exec, st *State, fr *Frame, at ssa.Instruction, a []Val) (Val, bool) {
		x.safety(st, fr, at, "mintnil", Not(mintNil(a[0].T)))
		return Val{T: x.define(st, "mi", mkMInt(App(SInt, "*", mintV(a[0].T), IntLitStr(decP)))), Typ: decType(x)}, true
	}
	natives[pkgMath+"LegacyNewDec"] = func(x *Exec, st *State, fr *Frame, at ssa.Instruction, a []Val) (Val, bool) {
		return Val{T: x.define(st, "mi", mkMInt(App(SInt, "*", a[0].T, IntLitStr(decP)))), Typ: decType(x)}, true
	}
	natives[pkgMath+"LegacyNewDecFromStr"] = func(x *Exec, st *State, fr *Frame, at ssa.Instruction, a []Val) (Val, bool) {
		// (dec, err): a function of the string; on success the decimal is not nil
		if len(a) != 1 || a[0].T.Sort != SStr {
			return Val{}, false
		}
		x.D.DeclareFun("dec.ofstr", []string{SStr}, SInt)
		x.D.DeclareFun("dec.ofstr.ok", []string{SStr}, SBool)
		ok := App(SBool, "dec.ofstr.ok", a[0].T)
		errT := x.D.Fresh("decerr", SIface)
		st.assume(Eq(Eq(errT, TINil), ok))
		d := Ite(ok, mkMInt(App(SInt, "dec.ofstr", a[0].T)), Term{"(mk-mint true 0)", SMInt})
		dv := Val{T: x.define(st, "mi", d), Typ: decType(x)}
		ev := Val{T: errT, Typ: types.Universe.Lookup("error").Type()}
		return Val{T: Term{"unit", SUnit}, Tup: []Val{dv, ev}}, true
	}
	natives[pkgMath+"LegacyZeroDec"] = func(x *Exec, st *State, fr *Frame, at ssa.Instruction, a []Val) (Val, bool) {
		return Val{T: mkMInt(IntLit(0)), Typ: decType(x)}, true
	}
	natives[pkgMath+"LegacyOneDec"] = func(x *Exec, st *State, fr *Frame, at ssa.Instruction, a []Val) (Val, bool) {
		return Val{T: mkMInt(IntLitStr(decP)), Typ: decType(x)}, true
	}
	pi := pkgMath + "(Int)."
	natives[pi+"Mul"] = intBin("*")
	natives[pi+"AddRaw"] = intBinRaw("+")
	natives[pi+"SubRaw"] = intBinRaw("-")
	natives[pi+"MulRaw"] = intBinRaw("*")
	natives[pi+"Quo"] = func(x *Exec, st *State, fr *Frame, at ssa.Instruction, a []Val) (Val, bool) {
		x.safety(st, fr, at, "mintnil", And(Not(mintNil(a[0].T)), Not(mintNil(a[1].T))))
		x.safety(st, fr, at, "divzero", Not(Eq(mintV(a[1].T), IntLit(0))))
		return Val{T: x.define(st, "mi", mkMInt(x.truncDiv(mintV(a[0].T), mintV(a[1].T), false, nil))), Typ: a[0].Typ}, true
	}
	natives[pi+"QuoRaw"] = func(x *Exec, st *State, fr *Frame, at ssa.Instruction, a []Val) (Val, bool) {
		x.safety(st, fr, at, "mintnil", Not(mintNil(a[0].T)))
		x.safety(st, fr, at, "divzero", Not(Eq(a[1].T, IntLit(0))))
		return Val{T: x.define(st, "mi", mkMInt(x.truncDiv(mintV(a[0].T), a[1].T, false, nil))), Typ: a[0].Typ}, true
	}
	natives[pi+"Uint64"] = func(x *Exec, st *State, fr *Frame, at ssa.Instruction, a []Val) (Val, bool) {
		v := mintV(a[0].T)
		x.safety(st, fr, at, "mint.Uint64", And(Not(mintNil(a[0].T)), App(SBool, "<=", IntLit(0), v), App(SBool, "<=", v, IntLitStr("18446744073709551615"))))
		return Val{T: v, Typ: types.Typ[types.Uint64]}, true
	}
	natives[pi+"Int64"] = func(x *Exec, st *State, fr *Frame, at ssa.Instruction, a []Val) (Val, bool) {
		v := mintV(a[0].T)
		x.safety(st, fr, at, "mint.Int64", And(Not(mintNil(a[0].T)), App(SBool, "<=", IntLitStr("-9223372036854775808"), v), App(SBool, "<=", v, IntLitStr("9223372036854775807"))))
		return Val{T: v, Typ: types.Typ[types.Int64]}, true
	}
	natives[pi+"IsUint64"] = func(x *Exec, st *State, fr *Frame, at ssa.Instruction, a []Val) (Val, bool) {
		v := mintV(a[0].T)
		return Val{T: And(App(SBool, "<=", IntLit(0), v), App(SBool, "<=", v, IntLitStr("18446744073709551615"))), Typ: types.Typ[types.Bool]}, true
	}
	natives[pi+"IsInt64"] = func(x *Exec, st *State, fr *Frame, at ssa.Instruction, a []Val) (Val, bool) {
		v := mintV(a[0].T)
		return Val{T: And(App(SBool, "<=", IntLitStr("-9223372036854775808"), v), App(SBool, "<=", v, IntLitStr("9223372036854775807"))), Typ: types.Typ[types.Bool]}, true
	}
	natives[pi+"BigInt"] = func(x *Exec, st *State, fr *Frame, at ssa.Instruction, a []Val) (Val, bool) {
		return Val{T: a[0].T, Typ: nil}, true
	}
	mkFromInt := func(x *Exec, st *State, fr *Frame, at ssa.Instruction, a []Val) (Val, bool) {
		return Val{T: mkMInt(a[0].T), Typ: x.mintType()}, true
	}
	natives[pkgMath+"NewInt"] = mkFromInt
	natives[pkgMath+"NewIntFromUint64"] = mkFromInt
	natives[pkgMath+"NewIntFromBigInt"] = func(x *Exec, st *State, fr *Frame, at ssa.Instruction, a []Val) (Val, bool) {
		if a[0].T.Sort == SMInt {
			return Val{T: a[0].T, Typ: x.mintType()}, true
		}
		return Val{}, false
	}
	natives[pkgMath+"ZeroInt"] = func(x *Exec, st *State, fr *Frame, at ssa.Instruction, a []Val) (Val, bool) {
		return Val{T: mkMInt(IntLit(0)), Typ: x.mintType()}, true
	}
	natives[pkgMath+"OneInt"] = func(x *Exec, st *State, fr *Frame, at ssa.Instruction, a []Val) (Val, bool) {
		return Val{T: mkMInt(IntLit(1)), Typ: x.mintType()}, true
	}

	// --- sdk.Context / worlds ---
	natives[pkgSDK+"UnwrapSDKContext"] = func(x *Exec, st *State, fr *Frame, at ssa.Instruction, a []Val) (Val, bool) {
		t := typNamed(x, "github.com/cosmos/cosmos-sdk/types", "Context")
		x.D.DeclareFun("sdkctx", []string{SIface}, x.S.SortOf(t))
		w := a[0].World
		if w == 0 {
			w = 1
		}
		return Val{T: App(x.S.SortOf(t), "sdkctx", a[0].T), Typ: t, World: w}, true
	}
	natives[pkgSDK+"(Context).CacheContext"] = func(x *Exec, st *State, fr *Frame, at ssa.Instruction, a []Val) (Val, bool) {
		src := a[0].World
		if src == 0 {
			src = 1
		}
		nw := st.worlds[src-1].clone()
		st.worlds = append(st.worlds, nw)
		idx := len(st.worlds)
		ctx2 := x.freshVal(st, "cachectx", a[0].Typ)
		ctx2.World = idx
		commit := Val{T: x.D.Fresh("commit", SFn), Commit: &[2]int{idx - 1, src - 1}}
		st.note("CacheContext: world %d := copy of world %d", idx-1, src-1)
		return Val{T: Term{"unit", SUnit}, Tup: []Val{ctx2, commit}}, true
	}
	ctxSame := func(x *Exec, st *State, fr *Frame, at ssa.Instruction, a []Val) (Val, bool) {
		nv := x.freshVal(st, "ctxw", a[0].Typ)
		nv.World = a[0].World
		return nv, true
	}
	for _, m := range []string{"WithContext", "WithValue", "WithEventManager", "WithGasMeter", "WithBlockHeight", "WithBlockTime", "WithLogger", "WithBlockHeader", "WithIsCheckTx", "WithTxBytes", "WithChainID"} {
		natives[pkgSDK+"(Context)."+m] = ctxSame
	}
	natives[pkgSDK+"(Context).BlockHeight"] = func(x *Exec, st *State, fr *Frame, at ssa.Instruction, a []Val) (Val, bool) {
		x.D.DeclareFun("ctx.height", []string{SWorld}, SInt)
		v := Val{T: App(SInt, "ctx.height", x.D.Fresh("hroot", SWorld)), Typ: types.Typ[types.Int64]}
		// block height is a property of the block, not of the store version: one constant per run
		x.D.DeclareFun("blockheight", nil, SInt)
		v.T = Term{"blockheight", SInt}
		x.assumeTyped(st, v)
		st.assume(App(SBool, ">=", v.T, IntLit(0)))
		return v, true
	}

	// block header / block time: properties of the block, one constant per run
	natives[pkgSDK+"(Context).BlockHeader"] = func(x *Exec, st *State, fr *Frame, at ssa.Instruction, a []Val) (Val, bool) {
		call, ok := at.(*ssa.Call)
		if !ok {
			return Val{}, false
		}
		ht := call.Type()
		si := x.S.StructInfo(ht)
		if si == nil {
			return Val{}, false
		}
		name := "blockheader"
		x.D.DeclareFun(name, nil, si.sort)
		v := Val{T: Term{name, si.sort}, Typ: ht}
		if i := fieldIndex(si.typ, "Height"); i >= 0 {
			x.D.DeclareFun("blockheight", nil, SInt)
			st.assume(Eq(App(SInt, x.S.fieldSel(si.sort, si.typ, i), v.T), Term{"blockheight", SInt}))
			st.assume(And(App(SBool, ">=", Term{"blockheight", SInt}, IntLit(0)), App(SBool, "<=", Term{"blockheight", SInt}, IntLitStr("9223372036854775807"))))
		}
		return v, true
	}
	natives[pkgSDK+"(Context).BlockTime"] = func(x *Exec, st *State, fr *Frame, at ssa.Instruction, a []Val) (Val, bool) {
		call, ok := at.(*ssa.Call)
		if !ok {
			return Val{}, false
		}
		sort := x.S.SortOf(call.Type())
		x.D.DeclareFun("blocktime", nil, sort)
		return Val{T: Term{"blocktime", sort}, Typ: call.Type()}, true
	}

	// --- bytes / strings ---
	natives["bytes.Repeat"] = func(x *Exec, st *State, fr *Frame, at ssa.Instruction, a []Val) (Val, bool) {
		// bytes.Repeat(b, n): n copies of b; modelled when b is a one-byte slice (padding idiom)
		if len(a) != 2 || a[0].T.Sort != SSlice || App(SInt, "s.len", a[0].T).S != "1" {
			return Val{}, false
		}
		x.safety(st, fr, at, "bytes.Repeat", App(SBool, ">=", a[1].T, IntLit(0)))
		en, es := elemArrName(SInt)
		harr := x.heapArr(st, en, es)
		b0 := x.define(st, "rep.b", Select(Select(harr, App(SRef, "s.base", a[0].T)), App(SInt, "s.off", a[0].T)))
		r := x.newRef(st, "repeat")
		row := x.D.Fresh("rep.row", ArraySort(SInt, SInt))
		st.assume(Term{fmt.Sprintf("(forall ((i Int)) (! (=> (and (<= 0 i) (< i %s)) (= (select %s i) %s)) :pattern ((select %s i))))", a[1].T.S, row.S, b0.S, row.S), SBool})
		x.setHeap(st, en, Store(harr, r, row))
		return Val{T: App(SSlice, "mk-slice", r, IntLit(0), a[1].T, a[1].T), Typ: a[0].Typ}, true
	}
	natives["bytes.Equal"] = func(x *Exec, st *State, fr *Frame, at ssa.Instruction, a []Val) (Val, bool) {
		return Val{T: Eq(x.bytesOf(st, a[0]), x.bytesOf(st, a[1])), Typ: types.Typ[types.Bool]}, true
	}
	addrEq := func(x *Exec, st *State, fr *Frame, at ssa.Instruction, a []Val) (Val, bool) {
		if a[0].T.Sort != SSlice || a[1].T.Sort != SSlice {
			return Val{}, false
		}
		return Val{T: Eq(x.bytesOf(st, a[0]), x.bytesOf(st, a[1])), Typ: types.Typ[types.Bool]}, true
	}
	// Address.Equals(Address): both empty, or equal bytes — i.e. equal byte content. The argument is
	// an interface; when its dynamic payload is statically known we compare contents directly,
	// otherwise through an uninterpreted "bytes of the address behind this interface".
	addrEquals := func(x *Exec, st *State, fr *Frame, at ssa.Instruction, a []Val) (Val, bool) {
		if a[0].T.Sort != SSlice {
			return Val{}, false
		}
		var other Term
		if a[1].Dyn != nil && a[1].Dyn.T.Sort == SSlice {
			other = x.bytesOf(st, *a[1].Dyn)
		} else if a[1].T.Sort == SIface {
			x.D.DeclareFun("addr.bytes", []string{SIface}, SBytes)
			other = App(SBytes, "addr.bytes", a[1].T)
		} else {
			return Val{}, false
		}
		return Val{T: Eq(x.bytesOf(st, a[0]), other), Typ: types.Typ[types.Bool]}, true
	}
	natives[pkgSDK+"(AccAddress).Equals"] = addrEquals
	natives[pkgSDK+"(ValAddress).Equals"] = addrEquals
	_ = addrEq
	addrString := func(kind string) nativeFn {
		return func(x *Exec, st *State, fr *Frame, at ssa.Instruction, a []Val) (Val, bool) {
			if a[0].T.Sort != SSlice {
				return Val{}, false
			}
			fn := "bech32." + kind
			x.D.DeclareFun(fn, []string{SBytes}, SStr)
			return Val{T: App(SStr, fn, x.bytesOf(st, a[0])), Typ: types.Typ[types.String]}, true
		}
	}
	natives[pkgSDK+"(AccAddress).String"] = addrString("acc")
	natives[pkgSDK+"(ValAddress).String"] = addrString("val")
	natives["strings.HasPrefix"] = func(x *Exec, st *State, fr *Frame, at ssa.Instruction, a []Val) (Val, bool) {
		x.D.DeclareFun("str.prefixof_", []string{SStr, SStr}, SBool)
		r := App(SBool, "str.prefixof_", a[1].T, a[0].T)
		// a prefix is not longer than the string
		st.assume(Implies(r, App(SBool, "<=", App(SInt, "str.len_", a[1].T), App(SInt, "str.len_", a[0].T))))
		return Val{T: r, Typ: types.Typ[types.Bool]}, true
	}
	natives["fmt.Errorf"] = func(x *Exec, st *State, fr *Frame, at ssa.Instruction, a []Val) (Val, bool) {
		e := x.D.Fresh("errorf", SIface)
		st.assume(Not(Eq(e, TINil)))
		return Val{T: e, Typ: types.Universe.Lookup("error").Type()}, true
	}
	natives["errors.New"] = natives["fmt.Errorf"]
	natives["cosmossdk.io/errors.Wrap"] = func(x *Exec, st *State, fr *Frame, at ssa.Instruction, a []Val) (Val, bool) {
		e := x.D.Fresh("wrapped", SIface)
		// Wrap(nil, ..) == nil, Wrap(err, ..) != nil
		st.assume(Eq(Eq(e, TINil), Eq(a[0].T, TINil)))
		return Val{T: e, Typ: types.Universe.Lookup("error").Type()}, true
	}
	natives["cosmossdk.io/errors.Wrapf"] = natives["cosmossdk.io/errors.Wrap"]
	natives["cosmossdk.io/errors.(*Error).Wrap"] = func(x *Exec, st *State, fr *Frame, at ssa.Instruction, a []Val) (Val, bool) {
		e := x.D.Fresh("wrapped", SIface)
		st.assume(Not(Eq(e, TINil)))
		return Val{T: e, Typ: types.Universe.Lookup("error").Type()}, true
	}
	natives["cosmossdk.io/errors.(*Error).Wrapf"] = natives["cosmossdk.io/errors.(*Error).Wrap"]
}

// nativeByPattern handles generic instances and families.
func nativeByPattern(name string) nativeFn {
	switch {
	case strings.HasPrefix(name, "slices.Sort["):
		return nativeSlicesSort
	case strings.HasPrefix(name, "slices.SortStableFunc["), strings.HasPrefix(name, "slices.SortFunc["):
		// a permutation of the input in an order decided by the caller's comparison function
		// (the order itself is not modelled)
		return func(x *Exec, st *State, fr *Frame, at ssa.Instruction, a []Val) (Val, bool) {
			return slicesPermute(x, st, a, false)
		}
	case strings.HasPrefix(name, "slices.Contains["):
		return nativeSlicesContains
	case strings.HasPrefix(name, "github.com/VolumeFi/whoops.Must["):
		// whoops.Must(v, err): v when err == nil, panics otherwise (the panic ends the path)
		return func(x *Exec, st *State, fr *Frame, at ssa.Instruction, a []Val) (Val, bool) {
			if len(a) != 2 || a[1].T.Sort != SIface {
				return Val{}, false
			}
			x.safety(st, fr, at, "whoops.Must", Eq(a[1].T, TINil))
			st.assume(Eq(a[1].T, TINil))
			return a[0], true
		}
	}
	if name == "sort.SliceStable" || name == "sort.Slice" {
		// sort.Slice(x any, less): x's elements in an order decided by less (the order is not modelled)
		return func(x *Exec, st *State, fr *Frame, at ssa.Instruction, a []Val) (Val, bool) {
			if len(a) != 2 || a[0].Dyn == nil || a[0].Dyn.T.Sort != SSlice {
				return Val{}, false
			}
			return slicesPermute(x, st, []Val{*a[0].Dyn}, false)
		}
	}
	if name == "github.com/VolumeFi/whoops.Assert" {
		return func(x *Exec, st *State, fr *Frame, at ssa.Instruction, a []Val) (Val, bool) {
			if len(a) != 1 || a[0].T.Sort != SIface {
				return Val{}, false
			}
			x.safety(st, fr, at, "whoops.Assert", Eq(a[0].T, TINil))
			st.assume(Eq(a[0].T, TINil))
			return Val{T: Term{"unit", SUnit}}, true
		}
	}
	return nil
}

// slices.Sort: the result is a sorted permutation of the input (trusted). The permutation is given
// by a skolem function perm: index -> index, bijective on [0,len).
func nativeSlicesSort(x *Exec, st *State, fr *Frame, at ssa.Instruction, a []Val) (Val, bool) {
	return slicesPermute(x, st, a, true)
}

func slicesPermute(x *Exec, st *State, a []Val, ordered bool) (Val, bool) {
	s := a[0]
	if s.Typ == nil {
		return Val{}, false
	}
	sl, ok := s.Typ.Underlying().(*types.Slice)
	if !ok {
		return Val{}, false
	}
	sort := x.S.SortOf(sl.Elem())
	if ordered && sort != SInt && sort != SReal {
		return Val{}, false
	}
	n, as := elemArrName(sort)
	arr := x.heapArr(st, n, as)
	base, off, ln := App(SRef, "s.base", s.T), App(SInt, "s.off", s.T), App(SInt, "s.len", s.T)
	oldRow := x.define(st, "presort", Select(arr, base))
	newRow := x.D.Fresh("sorted", ArraySort(SInt, sort))
	x.nsort++
	perm := fmt.Sprintf("perm!%d", x.nsort)
	inv := fmt.Sprintf("perminv!%d", x.nsort)
	x.D.DeclareFun(perm, []string{SInt}, SInt)
	x.D.DeclareFun(inv, []string{SInt}, SInt)
	rowS := ArraySort(SInt, sort)
	_ = rowS
	idx := func(i string) string {
		if off.S == "0" {
			return i
		}
		return "(+ " + off.S + " " + i + ")"
	}
	// outside the slice window nothing changes
	st.assume(Term{fmt.Sprintf("(forall ((i Int)) (! (=> (or (< i %[1]s) (>= i (+ %[1]s %[2]s))) (= (select %[3]s i) (select %[4]s i))) :pattern ((select %[3]s i))))", off.S, ln.S, newRow.S, oldRow.S), SBool})
	// sorted
	if ordered {
		st.assume(Term{fmt.Sprintf("(forall ((i Int) (j Int)) (! (=> (and (<= 0 i) (<= i j) (< j %[1]s)) (<= (select %[2]s %[3]s) (select %[2]s %[4]s))) :pattern ((select %[2]s %[3]s) (select %[2]s %[4]s))))", ln.S, newRow.S, idx("i"), idx("j")), SBool})
	}
	if !ordered {
		// same elements (multiplicity not tracked): every new element is an old one and vice versa;
		// no perm/inv round-trip identities, which would feed each other's triggers
		st.assume(Term{fmt.Sprintf("(forall ((i Int)) (! (=> (and (<= 0 i) (< i %[1]s)) (and (<= 0 (%[4]s i)) (< (%[4]s i) %[1]s) (= (select %[2]s %[5]s) (select %[3]s %[6]s)))) :pattern ((select %[2]s %[5]s))))", ln.S, newRow.S, oldRow.S, perm, idx("i"), idx("("+perm+" i)")), SBool})
		st.assume(Term{fmt.Sprintf("(forall ((i Int)) (! (=> (and (<= 0 i) (< i %[1]s)) (and (<= 0 (%[4]s i)) (< (%[4]s i) %[1]s) (= (select %[3]s %[5]s) (select %[2]s %[6]s)))) :pattern ((select %[3]s %[5]s))))", ln.S, newRow.S, oldRow.S, inv, idx("i"), idx("("+inv+" i)")), SBool})
		x.setHeap(st, n, Store(arr, base, newRow))
		return Val{T: Term{"unit", SUnit}}, true
	}
	// permutation: new[i] = old[perm(i)], perm maps window to window, invertible
	st.assume(Term{fmt.Sprintf("(forall ((i Int)) (! (=> (and (<= 0 i) (< i %[1]s)) (and (<= 0 (%[4]s i)) (< (%[4]s i) %[1]s) (= (%[5]s (%[4]s i)) i) (= (select %[2]s %[6]s) (select %[3]s %[7]s)))) :pattern ((%[4]s i)) :pattern ((select %[2]s %[6]s))))", ln.S, newRow.S, oldRow.S, perm, inv, idx("i"), idx("("+perm+" i)")), SBool})
	st.assume(Term{fmt.Sprintf("(forall ((i Int)) (! (=> (and (<= 0 i) (< i %[1]s)) (and (<= 0 (%[3]s i)) (< (%[3]s i) %[1]s) (= (%[2]s (%[3]s i)) i))) :pattern ((%[3]s i))))", ln.S, perm, inv), SBool})
	x.setHeap(st, n, Store(arr, base, newRow))
	x.lastPerm = perm
	return Val{T: Term{"unit", SUnit}}, true
}

// ---------- injective library functions (assumptions T5; used by F7 relational obligations) ----------

// injective1 asserts, for a unary UF application r = f(a), the inverse fact f.inv(r) = a.
func (x *Exec) injective1(st *State, fn string, argSort, resSort string, a, r Term) {
	inv := fn + ".inv"
	x.D.DeclareFun(inv, []string{resSort}, argSort)
	st.assume(Eq(App(argSort, inv, r), a))
}

// separatedFormat: the format (a quoted Go constant) consists of exactly n plain verbs (%d %s %v %x
// %t %q, no flags, width or precision), any two of which are separated by literal text that contains
// a character no decimal number contains, and it renders every argument in full.
func separatedFormat(quoted string, n int) bool {
	f, err := strconv.Unquote(quoted)
	if err != nil {
		return false
	}
	verbs := 0
	sepOK := true // text since the previous verb holds a separating character
	first := true
	for i := 0; i < len(f); i++ {
		if f[i] != '%' {
			if !(f[i] >= '0' && f[i] <= '9') && f[i] != '-' && f[i] != '+' {
				sepOK = true
			}
			continue
		}
		if i+1 >= len(f) {
			return false
		}
		i++
		if f[i] == '%' {
			sepOK = true
			continue
		}
		switch f[i] {
		case 'd', 's', 'v', 'x', 't', 'q':
		default:
			return false
		}
		if !first && !sepOK {
			return false
		}
		first, sepOK = false, false
		verbs++
	}
	return verbs == n
}

func init() {
	// fmt.Sprintf / fmt.Sprint with a constant format: an uninterpreted function of the boxed
	// arguments, assumed injective (no separator characters inside %s arguments; see DESIGN T5).
	natives["fmt.Sprintf"] = func(x *Exec, st *State, fr *Frame, at ssa.Instruction, a []Val) (Val, bool) {
		call, ok := at.(*ssa.Call)
		if !ok || len(call.Call.Args) != 2 {
			return Val{}, false
		}
		fc, ok := call.Call.Args[0].(*ssa.Const)
		if !ok || fc.Value == nil {
			return Val{}, false
		}
		format := fc.Value.ExactString()
		va := a[1]
		n := concreteInt(App(SInt, "s.len", va.T))
		if va.T.Sort != SSlice || n < 0 || n > 16 {
			return Val{}, false
		}
		name, as := elemArrName(SIface)
		row := Select(x.heapArr(st, name, as), App(SRef, "s.base", va.T))
		off := App(SInt, "s.off", va.T)
		var args []Term
		var sorts []string
		for i := 0; i < n; i++ {
			args = append(args, x.define(st, "fa", Select(row, App(SInt, "+", off, IntLit(int64(i))))))
			sorts = append(sorts, SIface)
		}
		fn := "sprintf_" + shortHash(format)
		x.D.DeclareFun(fn, sorts, SStr)
		r := x.define(st, "fmt", App(SStr, fn, args...))
		if separatedFormat(format, n) {
			for i := range args {
				inv := fmt.Sprintf("%s.arg%d", fn, i)
				x.D.DeclareFun(inv, []string{SStr}, SIface)
				st.assume(Eq(App(SIface, inv, r), args[i]))
			}
			x.Trusted["assumed injective: fmt.Sprintf("+format+")"]++
		} else {
			// adjacent verbs, a width / precision, or a verb count that does not match: the
			// rendering can merge or drop argument content, so no inverse is assumed
			x.Abstracted["fmt.Sprintf("+format+") not assumed injective"]++
		}
		v := Val{T: r, Typ: types.Typ[types.String]}
		x.assumeTyped(st, v)
		return v, true
	}
	natives["github.com/cometbft/cometbft/crypto/tmhash.Sum"] = func(x *Exec, st *State, fr *Frame, at ssa.Instruction, a []Val) (Val, bool) {
		return x.hashNative(st, "tmhash", a[0], 32)
	}
	natives["github.com/ethereum/go-ethereum/crypto.Keccak256"] = func(x *Exec, st *State, fr *Frame, at ssa.Instruction, a []Val) (Val, bool) {
		// variadic [][]byte: only the single-argument form is modelled
		va := a[0]
		if va.T.Sort != SSlice || concreteInt(App(SInt, "s.len", va.T)) != 1 {
			return Val{}, false
		}
		name, as := elemArrName(SSlice)
		row := Select(x.heapArr(st, name, as), App(SRef, "s.base", va.T))
		el := Val{T: x.define(st, "kin", Select(row, App(SInt, "s.off", va.T))), Typ: types.NewSlice(types.Typ[types.Byte])}
		return x.hashNative(st, "keccak256", el, 32)
	}
}

// hashNative models a collision-free hash: result bytes = H(input bytes), with an inverse.
func (x *Exec) hashNative(st *State, name string, in Val, size int64) (Val, bool) {
	if in.T.Sort != SSlice {
		return Val{}, false
	}
	x.D.DeclareFun(name, []string{SBytes}, SBytes)
	ib := x.define(st, "hin", x.bytesOf(st, in))
	h := x.define(st, "hash", App(SBytes, name, ib))
	x.injective1(st, name, SBytes, SBytes, ib, h)
	r := x.freshVal(st, name, types.NewSlice(types.Typ[types.Byte]))
	st.assume(Eq(App(SInt, "s.len", r.T), IntLit(size)))
	st.assume(Not(Eq(App(SRef, "s.base", r.T), TNull)))
	st.assume(Eq(x.bytesOf(st, r), h))
	x.Trusted["assumed collision-free: "+name]++
	return r, true
}

// ---------- math/big, sdk.Coin ----------

func ratNum(t Term) Term { return App(SInt, "rat.num", t) }
func ratDen(t Term) Term { return App(SInt, "rat.den", t) }

func init() {
	big := "math/big."
	// (*big.Rat).SetString: a deterministic parse; on success the denominator is positive
	natives[big+"(*Rat).SetString"] = func(x *Exec, st *State, fr *Frame, at ssa.Instruction, a []Val) (Val, bool) {
		x.D.DeclareFun("rat.parse.ok", []string{SStr}, SBool)
		x.D.DeclareFun("rat.parse.num", []string{SStr}, SInt)
		x.D.DeclareFun("rat.parse.den", []string{SStr}, SInt)
		s := a[1].T
		ok := App(SBool, "rat.parse.ok", s)
		r := Ite(ok, App("Rat", "mk-rat", TFalse, App(SInt, "rat.parse.num", s), App(SInt, "rat.parse.den", s)), Term{"(mk-rat true 0 1)", "Rat"})
		st.assume(App(SBool, ">", App(SInt, "rat.parse.den", s), IntLit(0)))
		rv := Val{T: x.define(st, "rat", r), Typ: a[0].Typ}
		return Val{T: Term{"unit", SUnit}, Tup: []Val{rv, {T: ok, Typ: types.Typ[types.Bool]}}}, true
	}
	natives[big+"(*Rat).Sign"] = func(x *Exec, st *State, fr *Frame, at ssa.Instruction, a []Val) (Val, bool) {
		x.safety(st, fr, at, "ratnil", Not(App(SBool, "rat.nil", a[0].T)))
		n := ratNum(a[0].T)
		return Val{T: Ite(App(SBool, ">", n, IntLit(0)), IntLit(1), Ite(App(SBool, "<", n, IntLit(0)), IntLit(-1), IntLit(0))), Typ: types.Typ[types.Int]}, true
	}
	natives[big+"(*Rat).Num"] = func(x *Exec, st *State, fr *Frame, at ssa.Instruction, a []Val) (Val, bool) {
		x.safety(st, fr, at, "ratnil", Not(App(SBool, "rat.nil", a[0].T)))
		return Val{T: mkMInt(ratNum(a[0].T)), Typ: nil}, true
	}
	natives[big+"(*Rat).Denom"] = func(x *Exec, st *State, fr *Frame, at ssa.Instruction, a []Val) (Val, bool) {
		x.safety(st, fr, at, "ratnil", Not(App(SBool, "rat.nil", a[0].T)))
		return Val{T: mkMInt(ratDen(a[0].T)), Typ: nil}, true
	}
	bigFromInt := func(x *Exec, st *State, fr *Frame, at ssa.Instruction, a []Val) (Val, bool) {
		return Val{T: mkMInt(a[len(a)-1].T), Typ: nil}, true
	}
	natives[big+"NewInt"] = bigFromInt
	// (*big.Int).SetString(s, base): a deterministic parse; on failure the result is nil (and ok false)
	natives[big+"(*Int).SetString"] = func(x *Exec, st *State, fr *Frame, at ssa.Instruction, a []Val) (Val, bool) {
		if len(a) != 3 || a[1].T.Sort != SStr || a[2].T.Sort != SInt {
			return Val{}, false
		}
		x.D.DeclareFun("int.parse.ok", []string{SStr, SInt}, SBool)
		x.D.DeclareFun("int.parse.val", []string{SStr, SInt}, SInt)
		ok := x.define(st, "parseok", App(SBool, "int.parse.ok", a[1].T, a[2].T))
		r := Ite(ok, mkMInt(App(SInt, "int.parse.val", a[1].T, a[2].T)), App(SMInt, "mk-mint", TTrue, IntLit(0)))
		rv := Val{T: x.define(st, "bigint", r), Typ: a[0].Typ}
		return Val{T: Term{"unit", SUnit}, Tup: []Val{rv, {T: ok, Typ: types.Typ[types.Bool]}}}, true
	}
	// x.Cmp(y): the sign of x - y; a nil operand is a nil dereference (run-time check kind "bignil")
	natives[big+"(*Int).Cmp"] = func(x *Exec, st *State, fr *Frame, at ssa.Instruction, a []Val) (Val, bool) {
		if len(a) != 2 || a[0].T.Sort != SMInt || a[1].T.Sort != SMInt {
			return Val{}, false
		}
		x.safety(st, fr, at, "bignil", And(Not(mintNil(a[0].T)), Not(mintNil(a[1].T))))
		l, r := mintV(a[0].T), mintV(a[1].T)
		return Val{T: Ite(App(SBool, ">", l, r), IntLit(1), Ite(App(SBool, "<", l, r), IntLit(-1), IntLit(0))), Typ: types.Typ[types.Int]}, true
	}
	// z.SetUint64(v) / z.SetInt64(v): the result, and -- big.Int being modelled by value -- the new
	// value of the receiver's own SSA name (`estimate.SetUint64(x)` as a statement mutates estimate).
	// Other names aliasing the same big.Int are not updated (assumption: no aliasing of big.Ints).
	bigSet := func(x *Exec, st *State, fr *Frame, at ssa.Instruction, a []Val) (Val, bool) {
		r := Val{T: mkMInt(a[len(a)-1].T), Typ: nil}
		if c, ok := at.(*ssa.Call); ok && !c.Call.IsInvoke() && len(c.Call.Args) > 0 {
			if old, ok := fr.env[c.Call.Args[0]]; ok && old.T.Sort == SMInt {
				nv := old
				nv.T = r.T
				fr.env[c.Call.Args[0]] = nv
			}
		}
		return r, true
	}
	natives[big+"(*Int).SetUint64"] = bigSet
	natives[big+"(*Int).SetInt64"] = bigSet

	// sdk.NewCoin(denom, amount): the coin itself (it panics for a negative amount / invalid denom)
	natives[pkgSDK+"NewCoin"] = func(x *Exec, st *State, fr *Frame, at ssa.Instruction, a []Val) (Val, bool) {
		ct := typNamed(x, "github.com/cosmos/cosmos-sdk/types", "Coin")
		si := x.S.StructInfo(ct)
		if si == nil || len(si.fields) != 2 {
			return Val{}, false
		}
		x.safety(st, fr, at, "NewCoin.nonneg", And(Not(mintNil(a[1].T)), App(SBool, ">=", mintV(a[1].T), IntLit(0))))
		return Val{T: App(si.sort, "mk-"+si.sort, a[0].T, a[1].T), Typ: ct}, true
	}
	// sdk.NewCoins(c): for ONE coin: the singleton {c}, or the empty set when c is zero
	natives[pkgSDK+"NewCoins"] = func(x *Exec, st *State, fr *Frame, at ssa.Instruction, a []Val) (Val, bool) {
		va := a[0]
		if va.T.Sort != SSlice || concreteInt(App(SInt, "s.len", va.T)) != 1 {
			return Val{}, false
		}
		ct := typNamed(x, "github.com/cosmos/cosmos-sdk/types", "Coin")
		cst := typNamed(x, "github.com/cosmos/cosmos-sdk/types", "Coins")
		si := x.S.StructInfo(ct)
		if si == nil {
			return Val{}, false
		}
		name, as := elemArrName(si.sort)
		arr := x.heapArr(st, name, as)
		c := x.define(st, "coin", Select(Select(arr, App(SRef, "s.base", va.T)), App(SInt, "s.off", va.T)))
		amt := App(SMInt, x.S.fieldSel(si.sort, si.typ, 1), c)
		base := x.newRef(st, "coins")
		zero := Eq(mintV(amt), IntLit(0))
		n := Ite(zero, IntLit(0), IntLit(1))
		x.setHeap(st, name, Store(arr, base, Store(Select(arr, base), IntLit(0), c)))
		r := Val{T: App(SSlice, "mk-slice", base, IntLit(0), n, IntLit(1)), Typ: cst}
		return r, true
	}
}

// slices.Contains(s, v): exists i in [0,len) with s[i] == v (element sorts with term equality only).
func nativeSlicesContains(x *Exec, st *State, fr *Frame, at ssa.Instruction, a []Val) (Val, bool) {
	s, v := a[0], a[1]
	sl, ok := s.Typ.Underlying().(*types.Slice)
	if !ok || s.T.Sort != SSlice {
		return Val{}, false
	}
	sort := x.S.SortOf(sl.Elem())
	if sort != SInt && sort != SStr && sort != SBool && sort != SRef {
		return Val{}, false
	}
	n, as := elemArrName(sort)
	row := x.define(st, "crow", Select(x.heapArr(st, n, as), App(SRef, "s.base", s.T)))
	off, ln := App(SInt, "s.off", s.T), App(SInt, "s.len", s.T)
	r := x.D.Fresh("contains", SBool)
	x.nquant++
	wit := x.D.Fresh("contains.at", SInt)
	// r ==> a witness index exists; !r ==> no index matches
	st.assume(Implies(r, And(App(SBool, "<=", IntLit(0), wit), App(SBool, "<", wit, ln), Eq(Select(row, App(SInt, "+", off, wit)), v.T))))
	q := fmt.Sprintf("c_q%d", x.nquant)
	st.assume(Implies(Not(r), Term{fmt.Sprintf("(forall ((%[1]s Int)) (! (=> (and (<= 0 %[1]s) (< %[1]s %[2]s)) (not (= (select %[3]s (+ %[4]s %[1]s)) %[5]s))) :pattern ((select %[3]s (+ %[4]s %[1]s)))))", q, ln.S, row.S, off.S, v.T.S), SBool}))
	return Val{T: r, Typ: types.Typ[types.Bool]}, true
}

// ---------- bech32 address parsing ----------

func init() {
	fromBech := func(kind string) nativeFn {
		return func(x *Exec, st *State, fr *Frame, at ssa.Instruction, a []Val) (Val, bool) {
			call, ok := at.(*ssa.Call)
			if !ok || a[0].T.Sort != SStr {
				return Val{}, false
			}
			res := call.Call.Signature().Results()
			fn := kind + ".frombech32"
			x.D.DeclareFun(fn, []string{SStr}, SBytes)
			r := x.freshVal(st, "addr", res.At(0).Type())
			st.assume(Eq(x.bytesOf(st, r), App(SBytes, fn, a[0].T)))
			x.sawRef(st, r)
			if res.Len() == 1 {
				return r, true
			}
			e := x.freshVal(st, "bech32err", res.At(1).Type())
			return Val{T: Term{"unit", SUnit}, Tup: []Val{r, e}}, true
		}
	}
	natives[pkgSDK+"AccAddressFromBech32"] = fromBech("acc")
	natives[pkgSDK+"MustAccAddressFromBech32"] = fromBech("acc")
	natives[pkgSDK+"ValAddressFromBech32"] = fromBech("val")
	ident := func(x *Exec, st *State, fr *Frame, at ssa.Instruction, a []Val) (Val, bool) {
		if a[0].T.Sort != SSlice {
			return Val{}, false
		}
		call, ok := at.(*ssa.Call)
		if !ok {
			return Val{}, false
		}
		return Val{T: a[0].T, Typ: call.Type()}, true
	}
	natives[pkgSDK+"(AccAddress).Bytes"] = ident
	natives[pkgSDK+"(ValAddress).Bytes"] = ident
}

func init() {
	// coin.AddAmount(x) / coin.SubAmount(x): the coin with the same denom and the amount plus / minus x
	// (the SDK's Coin{coin.Denom, coin.Amount.Add(x)}; SubAmount panics on a negative result)
	for _, m := range []struct{ name, op string }{{"AddAmount", "Add"}, {"SubAmount", "Sub"}} {
		m := m
		natives[pkgSDK+"(Coin)."+m.name] = func(x *Exec, st *State, fr *Frame, at ssa.Instruction, a []Val) (Val, bool) {
			si := x.S.StructInfo(a[0].Typ)
			if si == nil || len(si.fields) != 2 || fieldIndex(si.typ, "Denom") != 0 || fieldIndex(si.typ, "Amount") != 1 || len(a) != 2 {
				return Val{}, false
			}
			bin := natives[pkgMath+"(Int)."+m.op]
			if bin == nil {
				return Val{}, false
			}
			den := App(si.fields[0], x.S.fieldSel(si.sort, si.typ, 0), a[0].T)
			amt := Val{T: App(si.fields[1], x.S.fieldSel(si.sort, si.typ, 1), a[0].T), Typ: a[1].Typ}
			sum, ok := bin(x, st, fr, at, []Val{amt, a[1]})
			if !ok {
				return Val{}, false
			}
			if m.op == "Sub" {
				x.safety(st, fr, at, "SubAmount.nonneg", App(SBool, ">=", mintV(sum.T), IntLit(0)))
			}
			return Val{T: App(si.sort, "mk-"+si.sort, den, sum.T), Typ: a[0].Typ}, true
		}
	}
	// sdk.Coin getters
	natives[pkgSDK+"(Coin).GetDenom"] = func(x *Exec, st *State, fr *Frame, at ssa.Instruction, a []Val) (Val, bool) {
		si := x.S.StructInfo(a[0].Typ)
		if si == nil || fieldIndex(si.typ, "Denom") < 0 {
			return Val{}, false
		}
		i := fieldIndex(si.typ, "Denom")
		return Val{T: App(si.fields[i], x.S.fieldSel(si.sort, si.typ, i), a[0].T), Typ: types.Typ[types.String]}, true
	}
}

func init() {
	// generated getter (*Coin).GetDenom: the Denom field of the coin the pointer refers to
	natives[pkgSDK+"(*Coin).GetDenom"] = func(x *Exec, st *State, fr *Frame, at ssa.Instruction, a []Val) (Val, bool) {
		ct := typNamed(x, "github.com/cosmos/cosmos-sdk/types", "Coin")
		si := x.S.StructInfo(ct)
		if si == nil || a[0].T.Sort != SRef {
			return Val{}, false
		}
		i := fieldIndex(si.typ, "Denom")
		l := x.lvalOf(Val{T: a[0].T, Typ: types.NewPointer(ct), LV: a[0].LV}).extend(lstep{field: i, ct: ct})
		t, _, err := x.loadLV(st.heap, l)
		if err != nil {
			return Val{}, false
		}
		nonNil := Not(Eq(x.rootOf(a[0]), TNull))
		if a[0].LV != nil && len(a[0].LV.Path) > 0 {
			nonNil = TTrue // address of a field: never nil
		}
		return Val{T: Ite(nonNil, t, x.S.StrLit("")), Typ: types.Typ[types.String]}, true
	}
}
