package gvc

import (
	"fmt"
	"go/token"
	"os"

	"golang.org/x/tools/go/ssa"
)

// Facts about captured variables that hold whenever a closure runs.
//
// A closure under contract is verified apart from the function that creates it, so what its captured
// variables hold is arbitrary. For a captured variable that is assigned exactly once -- in the creating
// function, before the closure is made, and nowhere else (not in any closure either) -- and whose assigned
// value is computed from the creating function's parameters by constants, conversions, arithmetic and
// calls that have a native model (no memory is read), the variable holds that value for the whole life of
// the closure. The value is written over the parameters of the creating function, which the closure's
// clauses may then name (`valAddress` of the enclosing function, when the closure itself now captures
// `assignee := valAddress.String()` instead). GVC_NO_CAPTURE_FACTS=1 turns this off.

func (x *Exec) closureCreationFacts(st *State, fr *Frame) {
	fn := fr.fn
	parent := fn.Parent()
	if parent == nil || os.Getenv("GVC_NO_CAPTURE_FACTS") != "" || os.Getenv("GVC_NO_RENAME") != "" {
		return
	}
	var mc *ssa.MakeClosure
	for _, b := range parent.Blocks {
		for _, in := range b.Instrs {
			if m, ok := in.(*ssa.MakeClosure); ok && m.Fn == ssa.Value(fn) {
				if mc != nil {
					return // made at two places: which one runs is not known here
				}
				mc = m
			}
		}
	}
	if mc == nil || len(mc.Bindings) != len(fr.freevars) {
		return
	}
	if parent.Parent() != nil {
		return // the creating function is a closure itself: its own captured variables are not followed
	}
	pf := &Frame{fn: parent, env: map[ssa.Value]Val{}, names: map[string]nameBinding{}, loopEntry: map[int]*loopSnap{}}
	if st.meta == nil {
		st.meta = map[string]Val{}
	}
	for _, p := range parent.Params {
		v := x.freshVal(st, "outer."+p.Name(), p.Type())
		pf.env[p] = v
		pf.params = append(pf.params, v)
		st.meta["outerparam:"+p.Name()] = v
	}
	for i, b := range mc.Bindings {
		val, ok := x.writeOnceValue(b, mc)
		if os.Getenv("GVC_TRACE_CAPTURE") != "" {
			fmt.Fprintf(os.Stderr, "capture %s: %s writeOnce=%v val=%v\n", fn.Name(), fn.FreeVars[i].Name(), ok, val)
		}
		if !ok {
			continue
		}
		v, ok := x.pureEval(st, pf, val, mc, 0)
		if os.Getenv("GVC_TRACE_CAPTURE") != "" {
			fmt.Fprintf(os.Stderr, "capture %s: %s pureEval=%v\n", fn.Name(), fn.FreeVars[i].Name(), ok)
		}
		if !ok {
			continue
		}
		cell := fr.freevars[i]
		if cell.T.Sort != SRef {
			continue
		}
		if err := x.storeLV(st, x.lvalOf(cell), v.T); err != nil {
			continue
		}
		x.Trusted["captured variable assigned once before the closure is made: holds that value; memory its computation read is taken as unchanged since ("+CanonName(fn)+": "+fn.FreeVars[i].Name()+")"]++
	}
	fr.entryHeap = copyHeap(st.heap)
}

// writeOnceValue: binding is the cell of a variable that is stored to exactly once, in the function that
// makes the closure, at a point that dominates mc, and is otherwise only read (also by every closure that
// captures it).
func (x *Exec) writeOnceValue(binding ssa.Value, mc *ssa.MakeClosure) (ssa.Value, bool) {
	alloc, ok := binding.(*ssa.Alloc)
	if !ok || alloc.Referrers() == nil {
		return nil, false
	}
	var store *ssa.Store
	for _, r := range *alloc.Referrers() {
		switch r := r.(type) {
		case *ssa.Store:
			if r.Addr != ssa.Value(alloc) || store != nil {
				return nil, false
			}
			store = r
		case *ssa.UnOp:
			if r.Op != token.MUL {
				return nil, false
			}
		case *ssa.DebugRef:
		case *ssa.MakeClosure:
			if !readOnlyIn(r, alloc, 0) {
				return nil, false
			}
		default:
			return nil, false
		}
	}
	if store == nil || !dominatesInstr(store, mc) {
		return nil, false
	}
	return store.Val, true
}

func readOnlyIn(mc *ssa.MakeClosure, cell ssa.Value, depth int) bool {
	g, ok := mc.Fn.(*ssa.Function)
	if !ok || depth > 4 {
		return false
	}
	for j, b := range mc.Bindings {
		if b != cell {
			continue
		}
		fv := g.FreeVars[j]
		if fv.Referrers() == nil {
			continue
		}
		for _, r := range *fv.Referrers() {
			switch r := r.(type) {
			case *ssa.UnOp:
				if r.Op != token.MUL {
					return false
				}
			case *ssa.DebugRef:
			case *ssa.MakeClosure:
				if !readOnlyIn(r, fv, depth+1) {
					return false
				}
			default:
				return false
			}
		}
	}
	return true
}

func dominatesInstr(a, b ssa.Instruction) bool {
	if a.Block() == b.Block() {
		for _, in := range a.Block().Instrs {
			if in == a {
				return true
			}
			if in == b {
				return false
			}
		}
		return false
	}
	return a.Block().Dominates(b.Block())
}

// pureEval: the value of v in the creating function, over its parameters, when it reads no memory.
func (x *Exec) pureEval(st *State, pf *Frame, v ssa.Value, mc *ssa.MakeClosure, depth int) (Val, bool) {
	if depth > 8 {
		return Val{}, false
	}
	if got, ok := pf.env[v]; ok {
		return got, true
	}
	switch e := v.(type) {
	case *ssa.Const:
		return x.val(st, pf, e), true
	case *ssa.Parameter:
		return Val{}, false // (parameters of the creating function are in pf.env)
	case *ssa.UnOp:
		if e.Op == token.MUL {
			// a parameter that lives in a cell because some closure captures it
			inner, ok := x.writeOnceValue(e.X, mc)
			if !ok {
				return Val{}, false
			}
			if _, isParam := inner.(*ssa.Parameter); !isParam {
				return Val{}, false
			}
			return x.pureEval(st, pf, inner, mc, depth+1)
		}
		return Val{}, false
	case *ssa.Call:
		cc := e.Common()
		callee := cc.StaticCallee()
		if callee == nil || cc.IsInvoke() {
			return Val{}, false
		}
		name := CanonName(callee)
		nat, ok := natives[name]
		if !ok {
			nat = nativeByPattern(name)
		}
		if nat == nil {
			return Val{}, false
		}
		var args []Val
		for _, a := range cc.Args {
			av, ok := x.pureEval(st, pf, a, mc, depth+1)
			if !ok {
				return Val{}, false
			}
			args = append(args, av)
		}
		r, handled := nat(x, st, pf, e, args)
		if !handled {
			return Val{}, false
		}
		pf.env[e] = r
		return r, true
	}
	return Val{}, false
}
