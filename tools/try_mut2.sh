#!/bin/bash
# try_mut2.sh <id> <n>: apply a round-2 candidate change to /repo, run the property's quick check, undo
id=$1; n=$2; d=${3:-/tmp/mut2}
[ -z "$(git -C /repo status --porcelain)" ] || { echo "/repo working tree is not clean"; exit 2; }
git -C /repo apply $d/$id/$n/patch.diff || exit 1
/verif/bin/gvc check $id 2>&1 | grep "VIOLATION\|^$id:" | cut -c1-240
git -C /repo checkout -- .
# leave the evidence file of the unchanged tree behind, not the one of the mutated run
/verif/bin/gvc check $id >/dev/null 2>&1
