#!/usr/bin/env python3
# sweep_report.py <Cxx> [all]: survivors of the last mutation sweep, high-signal operators first
import json,sys
d=json.load(open('/verif/out/mutsweep/%s.json'%sys.argv[1]))
low={'RETNIL','CONDT'}
print(d['counts'])
cur=None
for m in d['mutants']:
    if m['result'] not in ('survived','error'): continue
    if m['op'] in low and len(sys.argv)<3: continue
    if m['func']!=cur:
        cur=m['func']; print('\n'+cur)
    print('  %-7s %s:%d  %s -> %s'%(m['op'], m['file'].split('/repo/')[-1], m['line'], m['old'][:60], m['new'][:60]))
