#!/bin/bash
# keep_mut.sh <id> <n>: after confirm_mut.sh succeeded, store the seeded change under /verif/seeded/<id>-<n>/
id=$1; n=$2; src=/tmp/mut/$id/$n; dst=/verif/seeded/$id-$n
mkdir -p $dst
cp $src/patch.diff $dst/patch.diff
cp $src/demo_test.go $dst/demo_test.go.txt
cp $src/demo_pkg.txt $dst/demo_pkg.txt
python3 - $src/meta.json $dst/meta.json $id <<'PY'
import json,sys
m=json.load(open(sys.argv[1]))
out={"property":sys.argv[3],"summary":m.get("summary"),"needs":m.get("needs"),"files":m.get("files"),
 "origin":"independent sub-agent given only the property text and a scratch worktree",
 "confirmed_by":"/verif/tools/confirm_mut.sh in a scratch worktree: patch applies; go build ./... ok; existing tests of the touched packages and the demo package pass with the change; demo test passes on the clean tree and fails with the change",
 "agent_ran":m.get("ran")}
json.dump(out,open(sys.argv[2],'w'),indent=1)
PY
echo kept $dst
