#!/bin/bash
# keep_mut2.sh <id> <n> <dst-n> [first_outcome] [srcdir] [round]: store a seeded change under /verif/seeded/<id>-<dst-n>/
id=$1; n=$2; dn=$3; src=${5:-/tmp/mut2}/$id/$n; round=${6:-2}; dst=/verif/seeded/$id-$dn
mkdir -p $dst
cp $src/patch.diff $dst/patch.diff
cp $src/demo_test.go $dst/demo_test.go.txt
cp $src/demo_pkg.txt $dst/demo_pkg.txt
python3 - $src/meta.json $dst/meta.json $id "${4:-}" $round <<'PY'
import json,sys
m=json.load(open(sys.argv[1]))
out={"property":sys.argv[3],"round":int(sys.argv[5]),"summary":m.get("summary"),"needs":m.get("needs"),"files":m.get("files"),
 "origin":"independent sub-agent (round %s)"%sys.argv[5]+" given only the property text, the list of ideas already tried, and a scratch worktree",
 "confirmed_by":"/verif/tools/confirm_mut.sh in a scratch worktree: patch applies; go build ./... ok; existing tests of the touched packages and the demo package pass with the change; demo test passes on the clean tree and fails with the change",
 "first_outcome":sys.argv[4],
 "agent_ran":m.get("ran")}
json.dump(out,open(sys.argv[2],'w'),indent=1)
PY
echo kept $dst
