#!/bin/bash
# confirm_mut.sh <mutdir> <worktree>: confirm a candidate seeded change in a scratch worktree:
# applies, builds, existing tests of touched packages pass, demo fails with / passes without.
set -u
M=$1; WT=$2
export GOFLAGS=-mod=mod GOPROXY=off GOSUMDB=off GOTOOLCHAIN=local
cd $WT || exit 2
git checkout -q -- . 2>/dev/null; git clean -fdq -e 'zz_verif_*' . >/dev/null 2>&1
find . -name 'zz_demo_*_test.go' -delete
PKG=$(cat $M/demo_pkg.txt | tr -d '[:space:]')
FILES=$(grep '^+++ b/' $M/patch.diff | sed 's|^+++ b/||')
PKGS=$(for f in $FILES; do dirname $f; done | sort -u | sed 's|^|./|')
echo "files: $FILES"; echo "pkgs: $PKGS demo: $PKG"
# 1. demo passes without the change
cp $M/demo_test.go $PKG/zz_demo_confirm_test.go
go test -vet=off -count=1 -run 'Demo' ./$PKG/ > /tmp/confirm_clean.log 2>&1; C=$?
echo "demo on clean tree: exit $C"
rm -f $PKG/zz_demo_confirm_test.go
# 2. apply
git apply $M/patch.diff || { echo "PATCH DOES NOT APPLY"; exit 1; }
go build ./... > /tmp/confirm_build.log 2>&1; B=$?
echo "build with change: exit $B"
# 3. existing tests of touched packages (+ demo package)
go test -vet=off -count=1 $PKGS ./$PKG/ > /tmp/confirm_tests.log 2>&1; T=$?
echo "existing tests with change: exit $T"; grep -v '^ok\|no test files' /tmp/confirm_tests.log | head -5
# 4. demo fails with the change
cp $M/demo_test.go $PKG/zz_demo_confirm_test.go
go test -vet=off -count=1 -run 'Demo' ./$PKG/ > /tmp/confirm_mut.log 2>&1; D=$?
echo "demo with change: exit $D"
rm -f $PKG/zz_demo_confirm_test.go
git checkout -q -- $FILES
if [ $C -eq 0 ] && [ $B -eq 0 ] && [ $T -eq 0 ] && [ $D -ne 0 ]; then echo CONFIRMED; exit 0; else echo NOT-CONFIRMED; exit 1; fi
