#!/usr/bin/env python3
"""unsatcore.py file.smt2: minimal set of (assert ...) lines that are contradictory (by deletion)."""
import subprocess,sys
lines=open(sys.argv[1]).read().split('\n')
idx=[i for i,l in enumerate(lines) if l.startswith('(assert')]
keep=set(idx)
def unsat(ks):
    src='\n'.join(l for i,l in enumerate(lines) if (i not in idx or i in ks) and 'get-model' not in l)
    open('/tmp/core_t.smt2','w').write(src)
    r=subprocess.run(['z3-new','-T:5','/tmp/core_t.smt2'],capture_output=True,text=True).stdout.split('\n')[0]
    return r=='unsat'
if not unsat(keep):
    print("not unsat"); sys.exit(0)
for i in idx:
    if unsat(keep-{i}): keep.discard(i)
for i in sorted(keep): print(lines[i][:400])
