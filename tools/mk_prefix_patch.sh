#!/bin/bash
# mk_prefix_patch.sh <fix-commit> <out.patch>: a must-fail canary that re-introduces a fixed defect
# (reverse of the fix commit, restricted to the files that commit touched)
c=$1; out=$2
cd /repo || exit 1
files=$(git diff --name-only $c~1 $c)
git diff $c~1 $c -- $files > /tmp/fix.diff

git apply -R /tmp/fix.diff && git diff -- $files > $out
git checkout -- $files

echo "wrote $out ($(wc -l < $out) lines)"
