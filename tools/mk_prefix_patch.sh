#!/bin/bash
# mk_prefix_patch.sh <fix-commit> <out.patch>: a must-fail canary that re-introduces a fixed defect
c=$1; out=$2
cd /repo && git diff $c~1 $c > /tmp/fix.diff && git apply -R /tmp/fix.diff && git diff > $out; git checkout -- . ; echo "wrote $out ($(wc -l < $out) lines)"
