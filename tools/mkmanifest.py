#!/usr/bin/env python3
"""Regenerate /verif/MANIFEST.json from props/Cxx.json (claimed checks) and props/not_applicable.json."""
import json, glob, os, subprocess
V='/verif'
props=[json.loads(l) for l in open(V+'/properties.jsonl')]
ids=[p['id'] for p in props]
claimed={}
for f in sorted(glob.glob(V+'/props/C*.json')):
    c=json.load(open(f))
    if c.get('claimed', True) and os.path.exists(V+'/ledger/%s.json'%c['id']):
        claimed[c['id']]=c
na=json.load(open(V+'/props/not_applicable.json')) if os.path.exists(V+'/props/not_applicable.json') else {}
hooks=subprocess.run(['git','-C','/repo','log','--format=%H %s'],capture_output=True,text=True).stdout.splitlines()
hook_commits=[l.split()[0] for l in hooks if l.split(' ',1)[1].startswith('verif:')]
checks=[]
for i in ids:
    if i not in claimed: continue
    c=claimed[i]; m=c.get('manifest',{})
    checks.append({
      "property_id": i,
      "quick_cmd": "./bin/gvc check %s --tier quick"%i,
      "thorough_cmd": "./bin/gvc check %s --tier thorough"%i,
      "evidence_file": "/verif/evidence/%s.json"%i,
      "replay_cmd_template": "./bin/gvc replay {path}",
      "engine": "gvc",
      "level_claimed": {"category": m.get("category","proof"), "text": m.get("text",""), "design_ref": m.get("design_ref","DESIGN.md section 5 / "+i)},
      "level_note": m.get("level_note",""),
      "technique": m.get("technique","contract-based deductive verification: weakest-precondition style VCs generated from go/ssa of the real functions under //@ contracts, discharged by z3/cvc5"),
    })
man={
 "version":1,
 "setup_cmd":"cd /verif && ./setup.sh",
 "hooks":{"guard":"verif","enable":"-tags verif (comment-only contract files zz_verif_*.go; no code)",
   "baseline_off_cmd":"cd /repo && GOFLAGS=-mod=mod GOPROXY=off GOSUMDB=off GOTOOLCHAIN=local go test -json -vet=off -count=1 -timeout 25m ./...",
   "source_commits":hook_commits,"add_only":True},
 "engines":[{"name":"gvc","path":"/verif/cmd/gvc","serves_properties":sorted(claimed.keys()),
   "kind_free_text":"self-written VC generator / symbolic executor over go/ssa of the real code; contracts as //@ comments in verif-tagged comment-only files; obligations discharged by z3-new 5.1 / cvc5 1.0 / z3 4.8"}],
 "checks":checks,
 "notes":"see DESIGN.md; known_findings.json lists fixed defects (fix: commits in /repo) and open findings",
 "not_applicable":[{"property_id":i,"reason":na.get(i,"not yet claimed: contracts for this property are not in the ledger yet")} for i in ids if i not in claimed],
}
json.dump(man,open(V+'/MANIFEST.json','w'),indent=1)
print("claimed:",sorted(claimed.keys()))
