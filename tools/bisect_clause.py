#!/usr/bin/env python3
# bisect_clause.py <contract file> <label> <pkgs> <func>: split the top-level conjuncts of the labelled
# guard / ensures clause into T1..Tn, run gvc verify, print each status, restore the file.
import sys,subprocess,re,os
f,label,pkgs,func=sys.argv[1:5]
src=open(f).read()
lines=src.split('\n')
idx=[i for i,l in enumerate(lines) if '['+label+']' in l]
assert len(idx)==1, idx
l=lines[idx[0]]
m=re.match(r'(//@\s+(?:guard|ensures|guard_if_called))\s+\[[^\]]+\]\s*(.*)$',l)
head,rest=m.group(1),m.group(2)
prefix=''
if head.endswith('guard') or head.endswith('guard_if_called'):
    # "callee: expr"
    depth=0
    for k,ch in enumerate(rest):
        if ch in '([': depth+=1
        elif ch in ')]': depth-=1
        elif ch==':' and depth==0 and rest[k+1:k+2]!=':' and rest[k-1:k]!=':':
            prefix=rest[:k+1]+' '; rest=rest[k+1:].strip(); break
# implication at top level? keep antecedent on every conjunct of the consequent
ante=''
depth=0
for k in range(len(rest)-2):
    ch=rest[k]
    if ch in '([': depth+=1
    elif ch in ')]': depth-=1
    elif depth==0 and rest[k:k+3]=='==>' and rest[k-1]!='<':
        ante=rest[:k+3]+' '; rest=rest[k+3:].strip(); break
if rest.startswith('(') and rest.endswith(')'):
    d=0; ok=True
    for k,ch in enumerate(rest):
        if ch=='(':d+=1
        elif ch==')':
            d-=1
            if d==0 and k!=len(rest)-1: ok=False;break
    if ok: rest=rest[1:-1]
parts=[];depth=0;cur=''
k=0
while k<len(rest):
    ch=rest[k]
    if ch in '([': depth+=1
    elif ch in ')]': depth-=1
    if depth==0 and rest[k:k+2]=='&&':
        parts.append(cur.strip());cur='';k+=2;continue
    cur+=ch;k+=1
parts.append(cur.strip())
new=[ '%s [T%d] %s%s(%s)'%(head,i+1,prefix,ante,p) for i,p in enumerate(parts)]
lines[idx[0]:idx[0]+1]=new
open(f,'w').write('\n'.join(lines))
try:
    out=subprocess.run(['/verif/bin/gvc','verify','-pkgs',pkgs,'-func',func],capture_output=True,text=True).stdout
    for i,p in enumerate(parts):
        st=[l.split()[0] for l in out.split('\n') if re.search(r'[.#]T%d\s'%(i+1),l) and 'V.reach' not in l]
        print('T%d %-10s %s'%(i+1, st[0] if st else '?', p[:150]))
    for l in out.split('\n'):
        if 'UNSUPPORTED' in l: print(l)
finally:
    open(f,'w').write(src)
