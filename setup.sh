#!/bin/sh
# Build the gvc engine offline and warm the go build cache for /repo packages.
set -e
export GOFLAGS=-mod=mod GOPROXY=off GOSUMDB=off GOTOOLCHAIN=local
cd /verif
mkdir -p bin evidence replays out
go build -o bin/gvc ./cmd/gvc
# warm export data for the packages the loader touches (ignore failures: checks rebuild anyway)
(cd /repo && go build ./... >/dev/null 2>&1 || true)
echo setup-ok
